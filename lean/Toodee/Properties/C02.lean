import Toodee.Proofs.Index
/-
  C02 — Checked access reaches exactly the addressed cell or panics.

  For a receiver satisfying its invariant and any coordinate `(col,row)` (every component `< 2^64`):
  * in range: `x[(col,row)]`, `x[row][col]`, `x.col(col)[row]`, the `_mut` forms and the unchecked getters all return the one
    position `pos col row`, which for an owned array is `row*num_cols + col`, and that position is inside the buffer;
  * out of range: every *checked* accessor panics (never `ub`, and no position is produced).
  Both build modes (`m`), including coordinates whose products wrap around in release builds.
-/
namespace Toodee
variable {α : Type}

/-- owned array, valid coordinate -/
theorem C02_owned_valid (m : Mode) (t : TD α) (h : t.Inv) (col row : Nat)
    (hc : col < t.numCols) (hr : row < t.numRows) :
    t.pos col row < t.data.length ∧
    t.indexCoord m col row = .ok (t.pos col row) ∧
    t.indexCoordMut m col row = .ok (t.pos col row) ∧
    t.getUnchecked m col row = .ok (t.pos col row) ∧
    t.indexRow m row = .ok ⟨t.pos 0 row, t.numCols⟩ ∧
    t.indexRowMut m row = .ok ⟨t.pos 0 row, t.numCols⟩ ∧
    t.getUncheckedRow m row = .ok ⟨t.pos 0 row, t.numCols⟩ ∧
    (⟨t.pos 0 row, t.numCols⟩ : Win).index col = .ok (t.pos col row) ∧
    (∃ it, t.col m col = .ok it ∧ it.index m row = .ok (t.pos col row)) := by
  obtain ⟨hlen, _, hword⟩ := h
  have hcell : row * t.numCols + col < t.data.length := hlen ▸ cell_lt hc hr
  have hend : row * t.numCols + t.numCols ≤ t.data.length := hlen ▸ row_end_le hr
  have hmul : umul m row t.numCols = .ok (row * t.numCols) := umul_ok m _ _ (by omega)
  have hadd : uadd m (row * t.numCols) col = .ok (row * t.numCols + col) := uadd_ok m _ _ (by omega)
  have haddC : uadd m (row * t.numCols) t.numCols = .ok (row * t.numCols + t.numCols) :=
    uadd_ok m _ _ (by omega)
  have hidx : t.win.getIdx (row * t.numCols + col) = .ok (row * t.numCols + col) := by
    rw [Win.getIdx_ok _ (by simpa [TD.win] using hcell)]; simp [TD.win]
  have hrng : t.win.getRange (row * t.numCols) (row * t.numCols + t.numCols)
      = .ok ⟨row * t.numCols, t.numCols⟩ := by
    rw [Win.getRange_ok _ (by omega) (by simpa [TD.win] using hend)]; simp [TD.win]
  refine ⟨hcell, ?_, ?_, ?_, ?_, ?_, ?_, ?_, ?_⟩
  · simp [TD.indexCoord, TD.pos, hc, hr, hmul, hadd, hidx]
  · simp [TD.indexCoordMut, TD.pos, hc, hr, hmul, hadd, hidx]
  · simp [TD.getUnchecked, TD.pos, hmul, hadd, hidx]
  · simp [TD.indexRow, TD.pos, hr, hmul, haddC, hrng]
  · simp [TD.indexRowMut, TD.pos, hr, hmul, haddC, hrng]
  · simp [TD.getUncheckedRow, TD.pos, hmul, haddC, hrng]
  · rw [Win.index_ok _ (by simpa using hc)]; simp [TD.pos]
  · refine ⟨⟨⟨col, t.data.length - t.numCols + 1⟩, t.numCols - 1⟩, ?_, ?_⟩
    · have h1 : usub m t.data.length t.numCols = .ok (t.data.length - t.numCols) :=
        usub_ok m _ _ (by omega)
      have h2 : uadd m (t.data.length - t.numCols) col = .ok (t.data.length - t.numCols + col) :=
        uadd_ok m _ _ (by omega)
      have h3 : uadd m (t.data.length - t.numCols + col) 1 = .ok (t.data.length - t.numCols + col + 1) :=
        uadd_ok m _ _ (by omega)
      have h4 : usub m t.numCols 1 = .ok (t.numCols - 1) := usub_ok m _ _ (by omega)
      have h5 : t.win.getRange col (t.data.length - t.numCols + col + 1)
          = .ok ⟨col, t.data.length - t.numCols + 1⟩ := by
        rw [Win.getRange_ok _ (by omega) (by simp [TD.win]; omega)]
        simp [TD.win]; omega
      simp [TD.col, TD.colParams, hc, h1, h2, h3, h4, h5]
    · have hs : 1 + (t.numCols - 1) = t.numCols := by omega
      rw [Col.index_ok m _ _ (by simp only [hs]; omega) (by simp only []; omega)
        (by simp only [hs]; omega)]
      simp only [hs, TD.pos]; congr 1; omega

/-- owned array, invalid coordinate: every checked accessor panics -/
theorem C02_owned_invalid (m : Mode) (t : TD α) (h : t.Inv) (col row : Nat)
    (hcw : col < WORD) (hrw : row < WORD) (hbad : ¬ (col < t.numCols ∧ row < t.numRows)) :
    t.indexCoord m col row = .error .panic ∧
    t.indexCoordMut m col row = .error .panic ∧
    (t.indexRow m row >>= fun w => w.index col) = .error .panic ∧
    (t.indexRowMut m row >>= fun w => w.index col) = .error .panic ∧
    (t.col m col >>= fun it => it.index m row) = .error .panic := by
  have _ := hcw; have _ := hrw
  obtain ⟨hlen, hzero, hword⟩ := h
  have hrow : (t.indexRow m row >>= fun w => w.index col) = .error .panic := by
    by_cases hr : row < t.numRows
    · have hc : ¬ col < t.numCols := fun hc => hbad ⟨hc, hr⟩
      have hend : row * t.numCols + t.numCols ≤ t.data.length := hlen ▸ row_end_le hr
      have hmul : umul m row t.numCols = .ok (row * t.numCols) := umul_ok m _ _ (by omega)
      have haddC : uadd m (row * t.numCols) t.numCols = .ok (row * t.numCols + t.numCols) :=
        uadd_ok m _ _ (by omega)
      have hrng := Win.getRange_ok t.win (s := row * t.numCols) (e := row * t.numCols + t.numCols)
        (by omega) (by simpa [TD.win] using hend)
      simp [TD.indexRow, hr, hmul, haddC, hrng, Win.index, hc]
    · simp [TD.indexRow, hr]
  refine ⟨?_, ?_, hrow, hrow, ?_⟩
  · by_cases hr : row < t.numRows
    · have hc : ¬ col < t.numCols := fun hc => hbad ⟨hc, hr⟩
      simp [TD.indexCoord, hr, hc]
    · simp [TD.indexCoord, hr]
  · by_cases hr : row < t.numRows
    · have hc : ¬ col < t.numCols := fun hc => hbad ⟨hc, hr⟩
      simp [TD.indexCoordMut, hr, hc]
    · simp [TD.indexCoordMut, hr]
  · by_cases hc : col < t.numCols
    · have hr : t.numRows ≤ row := Nat.not_lt.1 fun hr => hbad ⟨hc, hr⟩
      have hR : 0 < t.numRows := by
        rcases Nat.eq_zero_or_pos t.numRows with h0 | h0
        · have := hzero.2 h0; omega
        · exact h0
      have hCle : t.numCols ≤ t.data.length := by
        have := row_end_le (C := t.numCols) hR; omega
      have hge : t.data.length ≤ row * t.numCols := by
        rw [hlen, Nat.mul_comm]; exact Nat.mul_le_mul_right _ hr
      have h1 : usub m t.data.length t.numCols = .ok (t.data.length - t.numCols) :=
        usub_ok m _ _ hCle
      have h2 : uadd m (t.data.length - t.numCols) col = .ok (t.data.length - t.numCols + col) :=
        uadd_ok m _ _ (by omega)
      have h3 : uadd m (t.data.length - t.numCols + col) 1 = .ok (t.data.length - t.numCols + col + 1) :=
        uadd_ok m _ _ (by omega)
      have h4 : usub m t.numCols 1 = .ok (t.numCols - 1) := usub_ok m _ _ (by omega)
      have h5 := Win.getRange_ok t.win (s := col) (e := t.data.length - t.numCols + col + 1)
        (by omega) (by simp [TD.win]; omega)
      have hs : 1 + (t.numCols - 1) = t.numCols := by omega
      simp only [TD.col, TD.colParams, hc, h1, h2, h3, h4, h5, not_true_eq_false, if_false,
        ok_bind, pure_eq]
      apply Col.index_panic
      · simp only [hs]; omega
      · simp only [hs]; omega
    · simp [TD.col, TD.colParams, hc]

/-- view / mutable view over a root buffer of `n` cells, valid coordinate -/
theorem C02_view_valid (m : Mode) (v : VW) (n : Nat) (h : v.Inv n) (col row : Nat)
    (hc : col < v.numCols) (hr : row < v.numRows) :
    v.pos col row < n ∧
    v.indexCoord m col row = .ok (v.pos col row) ∧
    v.getUnchecked m col row = .ok (v.pos col row) ∧
    v.indexRow m row = .ok ⟨v.pos 0 row, v.numCols⟩ ∧
    v.getUncheckedRow m row = .ok ⟨v.pos 0 row, v.numCols⟩ ∧
    (⟨v.pos 0 row, v.numCols⟩ : Win).index col = .ok (v.pos col row) ∧
    (∃ it, v.col m col = .ok it ∧ it.index m row = .ok (v.pos col row)) := by
  obtain ⟨hstride, _, hlen, hinside, hword, hsw⟩ := h
  have hR : ¬ v.numRows = 0 := by omega
  rw [if_neg hR] at hlen
  have hrow : row * v.stride ≤ (v.numRows - 1) * v.stride := row_start_le _ hr
  have hmul : umul m row v.stride = .ok (row * v.stride) := umul_ok m _ _ (by omega)
  have hadd : uadd m (row * v.stride) col = .ok (row * v.stride + col) := uadd_ok m _ _ (by omega)
  have haddC : uadd m (row * v.stride) v.numCols = .ok (row * v.stride + v.numCols) :=
    uadd_ok m _ _ (by omega)
  have hidx := Win.getIdx_ok v.data (i := row * v.stride + col) (by omega)
  have hrng := Win.getRange_ok v.data (s := row * v.stride) (e := row * v.stride + v.numCols)
    (by omega) (by omega)
  refine ⟨by simp only [VW.pos]; omega, ?_, ?_, ?_, ?_, ?_, ?_⟩
  · simp [VW.indexCoord, VW.pos, hc, hr, hmul, hadd, hidx, Nat.add_assoc]
  · simp [VW.getUnchecked, VW.pos, hmul, hadd, hidx, Nat.add_assoc]
  · simp [VW.indexRow, VW.pos, hr, hmul, haddC, hrng]
  · simp [VW.getUncheckedRow, VW.pos, hmul, haddC, hrng]
  · rw [Win.index_ok _ (by simpa using hc)]; simp [VW.pos]
  · refine ⟨⟨⟨v.data.off + col, (v.numRows - 1) * v.stride + 1⟩, v.stride - 1⟩, ?_, ?_⟩
    · have h1 : usub m v.numRows 1 = .ok (v.numRows - 1) := usub_ok m _ _ (by omega)
      have h2 : umul m (v.numRows - 1) v.stride = .ok ((v.numRows - 1) * v.stride) :=
        umul_ok m _ _ (by omega)
      have h3 : uadd m col ((v.numRows - 1) * v.stride) = .ok (col + (v.numRows - 1) * v.stride) :=
        uadd_ok m _ _ (by omega)
      have h4 : uadd m (col + (v.numRows - 1) * v.stride) 1
          = .ok (col + (v.numRows - 1) * v.stride + 1) := uadd_ok m _ _ (by omega)
      have h5 : usub m v.stride 1 = .ok (v.stride - 1) := usub_ok m _ _ (by omega)
      have h6 : v.data.getRange col (col + (v.numRows - 1) * v.stride + 1)
          = .ok ⟨v.data.off + col, (v.numRows - 1) * v.stride + 1⟩ := by
        rw [Win.getRange_ok _ (by omega) (by omega)]
        congr 2; omega
      simp [VW.col, VW.colParams, hc, hR, h1, h2, h3, h4, h5, h6]
    · have hs : 1 + (v.stride - 1) = v.stride := by omega
      rw [Col.index_ok m _ _ (by simp only [hs]; omega) (by simp only []; omega)
        (by simp only [hs]; omega)]
      simp only [hs, VW.pos]; congr 1; omega

/-- view / mutable view, invalid coordinate -/
theorem C02_view_invalid (m : Mode) (v : VW) (n : Nat) (h : v.Inv n) (col row : Nat)
    (hcw : col < WORD) (hrw : row < WORD) (hbad : ¬ (col < v.numCols ∧ row < v.numRows)) :
    v.indexCoord m col row = .error .panic ∧
    (v.indexRow m row >>= fun w => w.index col) = .error .panic ∧
    (v.col m col >>= fun it => it.index m row) = .error .panic := by
  have _ := hcw; have _ := hrw
  obtain ⟨hstride, hzero, hlen, hinside, hword, hsw⟩ := h
  refine ⟨?_, ?_, ?_⟩
  · by_cases hr : row < v.numRows
    · have hc : ¬ col < v.numCols := fun hc => hbad ⟨hc, hr⟩
      simp [VW.indexCoord, hr, hc]
    · simp [VW.indexCoord, hr]
  · by_cases hr : row < v.numRows
    · have hc : ¬ col < v.numCols := fun hc => hbad ⟨hc, hr⟩
      have hR : ¬ v.numRows = 0 := by omega
      rw [if_neg hR] at hlen
      have hrow : row * v.stride ≤ (v.numRows - 1) * v.stride := row_start_le _ hr
      have hmul : umul m row v.stride = .ok (row * v.stride) := umul_ok m _ _ (by omega)
      have haddC : uadd m (row * v.stride) v.numCols = .ok (row * v.stride + v.numCols) :=
        uadd_ok m _ _ (by omega)
      have hrng := Win.getRange_ok v.data (s := row * v.stride) (e := row * v.stride + v.numCols)
        (by omega) (by omega)
      simp [VW.indexRow, hr, hmul, haddC, hrng, Win.index, hc]
    · simp [VW.indexRow, hr]
  · by_cases hc : col < v.numCols
    · have hr : v.numRows ≤ row := Nat.not_lt.1 fun hr => hbad ⟨hc, hr⟩
      have hR : ¬ v.numRows = 0 := fun h0 => by have := hzero.2 h0; omega
      rw [if_neg hR] at hlen
      have hge : (v.numRows - 1) * v.stride + v.stride ≤ row * v.stride := by
        rw [pred_mul_add _ (by omega)]; exact Nat.mul_le_mul_right _ hr
      have h1 : usub m v.numRows 1 = .ok (v.numRows - 1) := usub_ok m _ _ (by omega)
      have h2 : umul m (v.numRows - 1) v.stride = .ok ((v.numRows - 1) * v.stride) :=
        umul_ok m _ _ (by omega)
      have h3 : uadd m col ((v.numRows - 1) * v.stride) = .ok (col + (v.numRows - 1) * v.stride) :=
        uadd_ok m _ _ (by omega)
      have h4 : uadd m (col + (v.numRows - 1) * v.stride) 1
          = .ok (col + (v.numRows - 1) * v.stride + 1) := uadd_ok m _ _ (by omega)
      have h5 : usub m v.stride 1 = .ok (v.stride - 1) := usub_ok m _ _ (by omega)
      have h6 := Win.getRange_ok v.data (s := col) (e := col + (v.numRows - 1) * v.stride + 1)
        (by omega) (by omega)
      have hs : 1 + (v.stride - 1) = v.stride := by omega
      simp only [VW.col, VW.colParams, hc, hR, h1, h2, h3, h4, h5, h6, not_true_eq_false, if_false,
        ok_bind, pure_eq]
      apply Col.index_panic
      · simp only [hs]; omega
      · simp only [hs]; omega
    · simp [VW.col, VW.colParams, hc]

/-- distinct valid coordinates denote distinct cells (so "exactly the addressed cell") -/
theorem C02_pos_injective (v : VW) (n : Nat) (h : v.Inv n) (c1 r1 c2 r2 : Nat)
    (h1 : c1 < v.numCols) (h2 : c2 < v.numCols) (_ : r1 < v.numRows) (_ : r2 < v.numRows)
    (he : v.pos c1 r1 = v.pos c2 r2) : c1 = c2 ∧ r1 = r2 := by
  have hs := h.stride
  apply strided_inj (S := v.stride) (by omega) (by omega)
  simp only [VW.pos] at he
  omega

/-- an owned array is the view `(off 0, stride = num_cols)` of its buffer: same positions -/
theorem C02_owned_as_view (t : TD α) (h : t.Inv) :
    t.asView.Inv t.data.length ∧ ∀ c r, t.asView.pos c r = t.pos c r :=
  TD.asView_inv t h

/-- non-vacuity: a concrete 3-column, 2-row array has the invariant; its cell `(2,1)` is position `1*3+2 = 5`
    (`C02_owned_valid` applied to it) and the coordinate `(3,0)` panics (`C02_owned_invalid`) -/
example : TD.indexCoord .release (⟨[1, 2, 3, 4, 5, 6], 2, 3⟩ : TD Nat) 2 1 = .ok 5 :=
  (C02_owned_valid .release _ ⟨rfl, by decide, by decide⟩ 2 1 (by decide) (by decide)).2.1
example : TD.indexCoord .release (⟨[1, 2, 3, 4, 5, 6], 2, 3⟩ : TD Nat) 3 0 = .error .panic :=
  (C02_owned_invalid .release _ ⟨rfl, by decide, by decide⟩ 3 0 (by decide) (by decide) (by decide)).1
/-- non-vacuity: a 2x2 window (stride 3, offset 1) of an 8-cell buffer has the view invariant; its cell `(1,1)` is root
    position `1 + 1*3 + 1 = 5`, also through `col(1)[1]` (concrete computations); `(2,0)` panics (`C02_view_invalid`) -/
example : (⟨⟨1, 5⟩, 2, 2, 3⟩ : VW).Inv 8 ∧ VW.indexCoord .debug ⟨⟨1, 5⟩, 2, 2, 3⟩ 1 1 = .ok 5 ∧
    (VW.col .debug ⟨⟨1, 5⟩, 2, 2, 3⟩ 1 >>= fun it => it.index .debug 1) = .ok 5 :=
  ⟨⟨by decide, by decide, by decide, by decide, by decide, by decide⟩, by rfl, by rfl⟩
example : VW.indexCoord .release ⟨⟨1, 5⟩, 2, 2, 3⟩ 2 0 = .error .panic :=
  (C02_view_invalid .release _ 8 ⟨by decide, by decide, by decide, by decide, by decide, by decide⟩ 2 0
    (by decide) (by decide) (by decide)).1

end Toodee
