import Toodee.Spec.Inv
/-
  C02 — Checked access reaches exactly the addressed cell or panics.

  For a receiver satisfying its invariant and any coordinate `(col,row)` (every component `< 2^64`):
  * in range: `x[(col,row)]`, `x[row][col]`, `x.col(col)[row]`, the `_mut` forms and the unchecked getters all return the one
    position `pos col row`, which for an owned array is `row*num_cols + col`, and that position is inside the buffer;
  * out of range: every *checked* accessor panics (never `ub`, and no position is produced).
  Both build modes (`m`), including coordinates whose products wrap around in release builds.
-/
namespace Toodee
variable {α : Type}

/-- owned array, valid coordinate -/
theorem C02_owned_valid (m : Mode) (t : TD α) (h : t.Inv) (col row : Nat)
    (hc : col < t.numCols) (hr : row < t.numRows) :
    t.pos col row < t.data.length ∧
    t.indexCoord m col row = .ok (t.pos col row) ∧
    t.indexCoordMut m col row = .ok (t.pos col row) ∧
    t.getUnchecked m col row = .ok (t.pos col row) ∧
    t.indexRow m row = .ok ⟨t.pos 0 row, t.numCols⟩ ∧
    t.indexRowMut m row = .ok ⟨t.pos 0 row, t.numCols⟩ ∧
    t.getUncheckedRow m row = .ok ⟨t.pos 0 row, t.numCols⟩ ∧
    (⟨t.pos 0 row, t.numCols⟩ : Win).index col = .ok (t.pos col row) ∧
    (∃ it, t.col m col = .ok it ∧ it.index m row = .ok (t.pos col row)) := by
  sorry

/-- owned array, invalid coordinate: every checked accessor panics -/
theorem C02_owned_invalid (m : Mode) (t : TD α) (h : t.Inv) (col row : Nat)
    (hcw : col < WORD) (hrw : row < WORD) (hbad : ¬ (col < t.numCols ∧ row < t.numRows)) :
    t.indexCoord m col row = .error .panic ∧
    t.indexCoordMut m col row = .error .panic ∧
    (t.indexRow m row >>= fun w => w.index col) = .error .panic ∧
    (t.indexRowMut m row >>= fun w => w.index col) = .error .panic ∧
    (t.col m col >>= fun it => it.index m row) = .error .panic := by
  sorry

/-- view / mutable view over a root buffer of `n` cells, valid coordinate -/
theorem C02_view_valid (m : Mode) (v : VW) (n : Nat) (h : v.Inv n) (col row : Nat)
    (hc : col < v.numCols) (hr : row < v.numRows) :
    v.pos col row < n ∧
    v.indexCoord m col row = .ok (v.pos col row) ∧
    v.getUnchecked m col row = .ok (v.pos col row) ∧
    v.indexRow m row = .ok ⟨v.pos 0 row, v.numCols⟩ ∧
    v.getUncheckedRow m row = .ok ⟨v.pos 0 row, v.numCols⟩ ∧
    (⟨v.pos 0 row, v.numCols⟩ : Win).index col = .ok (v.pos col row) ∧
    (∃ it, v.col m col = .ok it ∧ it.index m row = .ok (v.pos col row)) := by
  sorry

/-- view / mutable view, invalid coordinate -/
theorem C02_view_invalid (m : Mode) (v : VW) (n : Nat) (h : v.Inv n) (col row : Nat)
    (hcw : col < WORD) (hrw : row < WORD) (hbad : ¬ (col < v.numCols ∧ row < v.numRows)) :
    v.indexCoord m col row = .error .panic ∧
    (v.indexRow m row >>= fun w => w.index col) = .error .panic ∧
    (v.col m col >>= fun it => it.index m row) = .error .panic := by
  sorry

/-- distinct valid coordinates denote distinct cells (so "exactly the addressed cell") -/
theorem C02_pos_injective (v : VW) (n : Nat) (h : v.Inv n) (c1 r1 c2 r2 : Nat)
    (h1 : c1 < v.numCols) (h2 : c2 < v.numCols) (_ : r1 < v.numRows) (_ : r2 < v.numRows)
    (he : v.pos c1 r1 = v.pos c2 r2) : c1 = c2 ∧ r1 = r2 := by
  sorry

/-- an owned array is the view `(off 0, stride = num_cols)` of its buffer: same positions -/
theorem C02_owned_as_view (t : TD α) (h : t.Inv) :
    t.asView.Inv t.data.length ∧ ∀ c r, t.asView.pos c r = t.pos c r := by
  sorry

end Toodee
