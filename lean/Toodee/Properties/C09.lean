import Toodee.Spec.IterAbs
import Toodee.Proofs.IterLemmas
/-
  C09 — Column iterators behave as an ideal double-ended exact-size indexable sequence.
  Same simulation as C08 for `Col`/`ColMut`; items are cell positions.  `col(c)` with `c` out of range panics.
-/
namespace Toodee
variable {α : Type}

theorem C09_next (it : Col) (k n : Nat) (h : it.WF k n) :
    ∃ it', it.next = .ok ((Seq.next (it.abs k)).1, it') ∧ it'.WF (k - 1) n ∧
      it'.abs (k - 1) = (Seq.next (it.abs k)).2 := by
  obtain ⟨it', h1, h2, _, h5⟩ := Col.next_spec h
  exact ⟨it', h1, h2, h5⟩

theorem C09_next_back (m : Mode) (it : Col) (k n : Nat) (h : it.WF k n) :
    ∃ it', it.nextBack m = .ok ((Seq.nextBack (it.abs k)).1, it') ∧ it'.WF (k - 1) n ∧
      it'.abs (k - 1) = (Seq.nextBack (it.abs k)).2 := by
  obtain ⟨it', h1, h2, _, h5⟩ := Col.nextBack_spec m h
  exact ⟨it', h1, h2, h5⟩

theorem C09_nth (m : Mode) (it : Col) (k n : Nat) (h : it.WF k n) (j : Nat) (hj : j < WORD) :
    ∃ it', it.nth m j = .ok ((Seq.nth (it.abs k) j).1, it') ∧ it'.WF (k - (j + 1)) n ∧
      it'.abs (k - (j + 1)) = (Seq.nth (it.abs k) j).2 := by
  obtain ⟨it', h1, h2, _, h5⟩ := Col.nth_spec m h j
  exact ⟨it', h1, h2, h5⟩

theorem C09_nth_back (m : Mode) (it : Col) (k n : Nat) (h : it.WF k n) (j : Nat) (hj : j < WORD) :
    ∃ it', it.nthBack m j = .ok ((Seq.nthBack (it.abs k) j).1, it') ∧ it'.WF (k - (j + 1)) n ∧
      it'.abs (k - (j + 1)) = (Seq.nthBack (it.abs k) j).2 := by
  obtain ⟨it', h1, h2, _, h5⟩ := Col.nthBack_spec m h j
  exact ⟨it', h1, h2, h5⟩

theorem C09_len (m : Mode) (it : Col) (k n : Nat) (h : it.WF k n) : it.sizeHint m = .ok k := by
  exact Col.sizeHint_spec m h

theorem C09_last (m : Mode) (it : Col) (k n : Nat) (h : it.WF k n) :
    it.last m = .ok (Seq.last (it.abs k)) := by
  exact Col.last_spec m h

theorem C09_fold (it : Col) (k n : Nat) (h : it.WF k n) (fuel : Nat) (hf : k < fuel) :
    it.collect fuel = .ok (it.abs k) := by
  exact Col.collect_spec h fuel hf

theorem C09_rfold (m : Mode) (it : Col) (k n : Nat) (h : it.WF k n) (fuel : Nat) (hf : k < fuel) :
    it.collectBack m fuel = .ok (it.abs k).reverse := by
  exact Col.collectBack_spec m h fuel hf

/-- indexing: `col[i]` is the `i`-th remaining cell, and panics for `i ≥ len` — also when `i*(1+skip)` wraps -/
theorem C09_index (m : Mode) (it : Col) (k n : Nat) (h : it.WF k n) (i : Nat) (hi : i < WORD) :
    (i < k → it.index m i = .ok (it.v.off + i * (1 + it.skip)) ∧ (it.abs k)[i]? = some (it.v.off + i * (1 + it.skip))) ∧
    (¬ i < k → it.index m i = .error .panic) := by
  refine ⟨fun hlt => ⟨Col.index_lt m h hlt, ?_⟩, fun hge => Col.index_ge m h (by omega)⟩
  rw [Col.abs_getElem?, if_pos hlt]

theorem C09_word (m : Mode) (it : Col) (k n : Nat) (h : it.WF k n) (w : List Seq.Op)
    (hw : ∀ o ∈ w, o.small) :
    ∃ it' k', it.run m w = .ok ((Seq.run (it.abs k) w).1, it') ∧ it'.WF k' n ∧
      it'.abs k' = (Seq.run (it.abs k) w).2 := by
  obtain ⟨it', k', h1, h2, _, h5⟩ := Col.run_spec m h w
  exact ⟨it', k', h1, h2, h5⟩

/-- `col(c)` / `col_mut(c)` of an owned array: in range gives the column's cells top to bottom; out of range panics -/
theorem C09_col_owned (m : Mode) (t : TD α) (h : t.Inv) (c : Nat) (hc : c < WORD) :
    (c < t.numCols → ∃ it, t.col m c = .ok it ∧ it.WF t.numRows t.data.length ∧
        it.abs t.numRows = (List.range t.numRows).map fun r => t.pos c r) ∧
    (¬ c < t.numCols → t.col m c = .error .panic) := by
  refine ⟨fun hlt => ?_, TD.col_panic m t c⟩
  obtain ⟨it, h1, h2, _, _, h5⟩ := TD.col_WF m t h c hlt
  exact ⟨it, h1, h2, h5⟩

/-- `col(c)` / `col_mut(c)` of a view -/
theorem C09_col_view (m : Mode) (v : VW) (n : Nat) (h : v.Inv n) (c : Nat) (hc : c < WORD) :
    (c < v.numCols → ∃ it, v.col m c = .ok it ∧ it.WF v.numRows n ∧
        it.abs v.numRows = (List.range v.numRows).map fun r => v.pos c r) ∧
    (¬ c < v.numCols → v.col m c = .error .panic) := by
  refine ⟨fun hlt => ?_, VW.col_panic m v c⟩
  obtain ⟨it, h1, h2, _, _, h5⟩ := VW.col_WF m v n h c hlt
  exact ⟨it, h1, h2, h5⟩

/-- the cells handed out by `col_mut` are distinct positions inside the buffer -/
theorem C09_col_distinct (it : Col) (k n : Nat) (h : it.WF k n) :
    (it.abs k).Nodup ∧ ∀ p ∈ it.abs k, p < n := by
  exact ⟨Col.abs_nodup it k, Col.abs_inside h⟩

/-- non-vacuity: column 1 of a concrete 3x2 array is a well-formed cursor over positions 1 and 4 -/
example : TD.col .debug (⟨[1, 2, 3, 4, 5, 6], 2, 3⟩ : TD Nat) 1 = .ok ⟨⟨1, 4⟩, 2⟩ := by rfl
example : (⟨⟨1, 4⟩, 2⟩ : Col).WF 2 6 ∧ (⟨⟨1, 4⟩, 2⟩ : Col).abs 2 = [1, 4] :=
  ⟨⟨by decide, by decide, by decide, by decide⟩, by decide⟩
/-- non-vacuity of `C09_index`: on that cursor `col[1]` is position 4 and `col[2]` panics -/
example : (⟨⟨1, 4⟩, 2⟩ : Col).index .release 1 = .ok 4 ∧ (⟨⟨1, 4⟩, 2⟩ : Col).index .release 2 = .error .panic :=
  have h : (⟨⟨1, 4⟩, 2⟩ : Col).WF 2 6 := ⟨by decide, by decide, by decide, by decide⟩
  ⟨((C09_index .release _ 2 6 h 1 (by decide)).1 (by decide)).1, (C09_index .release _ 2 6 h 2 (by decide)).2 (by decide)⟩
/-- non-vacuity of `C09_col_owned`: an out-of-range column panics -/
example : TD.col .release (⟨[1, 2, 3, 4, 5, 6], 2, 3⟩ : TD Nat) 3 = .error .panic :=
  (C09_col_owned .release _ ⟨rfl, by decide, by decide⟩ 3 (by decide)).2 (by decide)

end Toodee
