import Toodee.Spec.Grid
import Toodee.Impl.Sort
import Toodee.Spec.IterAbs
import Toodee.Proofs.OwnershipLemmas
import Toodee.Properties.C17
import Toodee.Properties.C13Dispatch
import Toodee.Proofs.SortLemmas2
/-
  C11 — A panic in caller-supplied code leaves a valid array.

  Proved here for the crate's own critical sections, i.e. the places where caller code runs while the `Vec`'s length or the
  dimensions are temporarily falsified:
  * `insert_row` / `insert_col` with **any** iterator script (any mixture of items and panics, any claimed length — too short,
    too long, enormous), any capacity, both build modes: never `ub`; whatever the outcome (success, assertion panic, iterator
    panic) the array afterwards satisfies the shape invariant; and elements are conserved: the array's cells, the leaked
    elements and the items the caller still holds are together exactly the old cells plus the supplied items (a permutation:
    nothing duplicated, nothing invented) — so no element can be dropped twice, then or later.
  * `DrainCol::drop` when an element's destructor panics (one panic; the `DropGuard` finishes the job): the array ends up
    exactly as after a normal drop.
  * the sort family: the side sort runs on a separate buffer before the array is touched, so a panicking comparator / key
    function leaves the buffer exactly as it was.
  Panics inside `Vec`'s own operations (`resize_with`, `fill`, `clone`, `drain`, `clear`) are std's responsibility (assumed
  components, exercised for real by the harness's fault injection).
-/
namespace Toodee
variable {α : Type}

/-- the items an event list still holds -/
def itemsOf (ev : List (Option α)) : List α := ev.filterMap id

theorem C11_insert_row (m : Mode) (cap : Nat) (t : TD α) (h : t.Inv) (i : Nat) (it : IterScript α) (spare : List α)
    (hsp : it.claimed ≤ spare.length ∨ ¬ reserveOk cap t.data.length (if t.numRows = 0 then it.claimed else t.numCols))
    (hcapw : cap < WORD) :
    let o := t.insertRow m cap i it spare
    o.res ≠ .error .ub ∧ o.res ≠ .error .fuel ∧ o.t.Inv ∧
    (o.t.data ++ o.leaked ++ itemsOf o.rest).Perm (t.data ++ itemsOf it.events) :=
  ow_insertRow_any m cap t h i it spare hsp hcapw

theorem C11_insert_col (m : Mode) (cap : Nat) (t : TD α) (h : t.Inv) (i : Nat) (it : IterScript α) (spare : List α)
    (hsp : it.claimed ≤ spare.length ∨ ¬ reserveOk cap t.data.length (if t.numCols = 0 then it.claimed else t.numRows))
    (hcapw : cap < WORD) :
    let o := t.insertCol m cap i it spare
    o.res ≠ .error .ub ∧ o.res ≠ .error .fuel ∧ o.t.Inv ∧
    (o.t.data ++ o.leaked ++ itemsOf o.rest).Perm (t.data ++ itemsOf it.events) :=
  ow_insertCol_any m cap t h i it spare hsp hcapw

/-- `Drop for DrainCol` (the loop as written, `DrainCol.dropLoop`) when the destructor of the `j`-th remaining element panics
    (`j = none`: no panic): the `DropGuard` runs during unwinding, so the array and the set of dropped elements are exactly
    those of a normal drop (`DrainCol.drop`, characterised by C07_remove_col_drop); the panic fires iff `j` is within the
    `k` elements left. -/
theorem C11_drain_col_drop_fault (m : Mode) (t : TD α) (h : t.Inv) (i : Nat) (hi : i < t.numCols)
    (d : DrainCol α) (hb : d.buf = t.data) (hc : d.col = i) (hnc : d.numCols = t.numCols) (hnr : d.numRows = t.numRows)
    (k : Nat) (hwf : d.iter.WF k t.data.length) (j : Option Nat) (fuel : Nat) (hf : k < fuel) :
    ∃ t' dropped p, d.dropLoop m fuel j [] = .ok ((t', dropped), p) ∧ d.drop m = .ok (t', dropped) ∧
      (p = true ↔ ∃ jj, j = some jj ∧ jj < k) := by
  obtain ⟨t', dropped, p, h1, h2, h3⟩ := ow_dropLoop m t h i hi k d j [] fuel hb hc hnc hnr hwf hf
  exact ⟨t', dropped, p, by simpa using h1, h2, h3⟩

/-- **a panicking comparator / key function**: every sort method calls caller code only inside its side sort (`SideSort`), which
    runs on a separate table before the array is written (`applyColPerm` / `applyRowPerm` are the only writers and come after it in
    `Acc.sortRowWith` / `Acc.sortColWith`).  Whatever the receiver (owned array, third-party implementor, view), the row/column
    index and the side-table limit: if the side sort panics the call ends in `panic` — never `ub` — and in the model a failed
    in-place call returns no new buffer: the array is the one before the call (shape invariant and all cells as before, C01). -/
theorem C11_sort_caller_panic (m : Mode) (lim : Nat) (side : SideSort α) (hp : ∀ keys, side keys = .error .panic) (k : Nat) :
    (∀ (t : TD α), t.Inv →
      (Recv.root t).run m lim t.data (.sortRow side k) = .error .panic ∧
      (Recv.root t).run m lim t.data (.sortCol side k) = .error .panic ∧
      (Recv.ext t).run m lim t.data (.sortRow side k) = .error .panic ∧
      (Recv.ext t).run m lim t.data (.sortCol side k) = .error .panic) ∧
    (∀ (v : VW) (buf : List α), v.Inv buf.length →
      (Recv.vmut v).run m lim buf (.sortRow side k) = .error .panic ∧
      (Recv.vmut v).run m lim buf (.sortCol side k) = .error .panic) := by
  constructor
  · intro t h
    obtain ⟨hv, _⟩ := C02_owned_as_view t h
    have ha := C13_acc_owned t h
    have hrow := sl2_sort_row_panic t.asView t.data hv t.acc ha (t.indexRow m) (sl2_indexRow_owned m t h) lim side hp k
    refine ⟨?_, ?_, ?_, ?_⟩
    · rw [sl2_run_root_row]; exact hrow
    · rw [sl2_run_root_col]
      exact sl2_sort_col_panic t.asView t.data hv t.acc ha (t.col m) (sl2_col_owned m t h) _
        (C17_swap_rows_spec_owned m t h) lim side hp k
    · rw [sl2_run_ext_row]; exact hrow
    · rw [sl2_run_ext_col]
      exact sl2_sort_col_panic t.asView t.data hv t.acc ha (t.col m) (sl2_col_owned m t h) _
        (sl2_swap_rows_spec_ext m t h) lim side hp k
  · intro v buf h
    obtain ⟨a, ea, ha⟩ := C13_acc_view m v buf.length h
    constructor
    · rw [sl2_run_vmut_row m lim v buf side k a ea]
      exact sl2_sort_row_panic v buf h a ha (v.indexRow m) (sl2_indexRow_view m v buf.length h) lim side hp k
    · rw [sl2_run_vmut_col m lim v buf side k a ea]
      exact sl2_sort_col_panic v buf h a ha (v.col m) (sl2_col_view m v buf.length h) _
        (C17_swap_rows_spec_view m v buf.length h) lim side hp k

/-- the same at the point where it matters: it suffices that the side sort panics **on the keys of the chosen line** of a valid
    line index (a comparator that panics on its k-th call for this array) -/
theorem C11_sort_caller_panic_at (m : Mode) (lim : Nat) (v : VW) (buf : List α) (h : v.Inv buf.length) (side : SideSort α)
    (hs : side.Sane) (k : Nat) :
    (k < v.numRows → v.numCols ≤ lim → side (readWin buf (v.rowWin k)) = .error .panic →
      (Recv.vmut v).run m lim buf (.sortRow side k) = .error .panic) ∧
    (k < v.numCols → v.numRows ≤ lim → side (v.colKeys buf k) = .error .panic →
      (Recv.vmut v).run m lim buf (.sortCol side k) = .error .panic) ∧
    (∀ (t : TD α), t.Inv → v = t.asView → buf = t.data →
      (k < t.numRows → t.numCols ≤ lim → side (readWin t.data (t.asView.rowWin k)) = .error .panic →
        (Recv.root t).run m lim t.data (.sortRow side k) = .error .panic) ∧
      (k < t.numCols → t.numRows ≤ lim → side (t.asView.colKeys t.data k) = .error .panic →
        (Recv.root t).run m lim t.data (.sortCol side k) = .error .panic)) := by
  have hrow : ∀ (w : VW) (d : List α), k < w.numRows → w.numCols ≤ lim → side (readWin d (w.rowWin k)) = .error .panic →
      (MOp.sortRow side k).spec w lim d = .error .panic := by
    intro w d h1 h2 h3
    simp only [MOp.spec, if_pos (And.intro h1 h2), h3, err_bind]
  have hcol : ∀ (w : VW) (d : List α), k < w.numCols → w.numRows ≤ lim → side (w.colKeys d k) = .error .panic →
      (MOp.sortCol side k).spec w lim d = .error .panic := by
    intro w d h1 h2 h3
    unfold VW.colKeys at h3
    simp only [MOp.spec, if_pos (And.intro h1 h2), h3, err_bind]
  refine ⟨?_, ?_, ?_⟩
  · intro h1 h2 h3
    rw [C04_run_view m lim v buf h (.sortRow side k) hs trivial]
    exact hrow v buf h1 h2 h3
  · intro h1 h2 h3
    rw [C04_run_view m lim v buf h (.sortCol side k) hs trivial]
    exact hcol v buf h1 h2 h3
  · intro t ht _ _
    constructor
    · intro h1 h2 h3
      rw [C13_run_owned m lim t ht (.sortRow side k) hs trivial]
      exact hrow t.asView t.data h1 h2 h3
    · intro h1 h2 h3
      rw [C13_run_owned m lim t ht (.sortCol side k) hs trivial]
      exact hcol t.asView t.data h1 h2 h3

/-- … and whenever a sort does write, its side sort had returned: a successful sort is a permutation of whole columns / rows by
    the permutation the side sort produced (no partial state is observable in between: C16_sort_row_with, C17_sort_col_with) -/
theorem C11_sort_writes_after_side (m : Mode) (lim : Nat) (v : VW) (buf : List α) (h : v.Inv buf.length) (side : SideSort α)
    (hs : side.Sane) (k : Nat) (buf' : List α) :
    ((Recv.vmut v).run m lim buf (.sortRow side k) = .ok buf' →
      ∃ p, side (readWin buf (v.rowWin k)) = .ok p ∧ buf' = gather buf (v.mapCells (sortColsG p))) ∧
    ((Recv.vmut v).run m lim buf (.sortCol side k) = .ok buf' →
      ∃ p, side (v.colKeys buf k) = .ok p ∧ buf' = gather buf (v.mapCells (sortRowsG p))) := by
  obtain ⟨a, ea, ha⟩ := C13_acc_view m v buf.length h
  constructor
  · intro e
    rw [sl2_run_vmut_row m lim v buf side k a ea] at e
    exact sl2_sort_row_ok v buf h a ha (v.indexRow m) (sl2_indexRow_view m v buf.length h) lim side hs k buf' e
  · intro e
    rw [sl2_run_vmut_col m lim v buf side k a ea] at e
    exact sl2_sort_col_ok v buf h a ha (v.col m) (sl2_col_view m v buf.length h) _
      (C17_swap_rows_spec_view m v buf.length h) lim side hs k buf' e

/-- non-vacuity: an iterator that panics on its second `next()` while a row is being inserted (one element written, then the
    panic: that element is leaked, the array keeps its old rows), an iterator that claims `usize::MAX` items (rejected by `reserve`,
    nothing consumed), and a panic at the first pull of `insert_col` (the `Vec` was at length 0: everything is leaked, the array is
    the valid empty array) -/
example : (⟨[1, 2, 3], 1, 3⟩ : TD Nat).insertRow .debug 100 1 ⟨3, [some 7, none, some 9]⟩ [0, 0, 0]
    = ⟨⟨[1, 2, 3], 1, 3⟩, .error .panic, [some 9], [7]⟩ := by rfl
example : (⟨[1, 2, 3], 1, 3⟩ : TD Nat).insertRow .release 100 0 ⟨18446744073709551615, [some 7]⟩ [0, 0, 0]
    = ⟨⟨[1, 2, 3], 1, 3⟩, .error .panic, [some 7], []⟩ := by rfl
example : (⟨[1, 2, 3, 4], 2, 2⟩ : TD Nat).insertCol .debug 100 1 ⟨2, [some 7, none]⟩ [0, 0]
    = ⟨⟨[], 0, 0⟩, .error .panic, [some 7], [1, 2, 3, 4]⟩ := by rfl

end Toodee
