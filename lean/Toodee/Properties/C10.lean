import Toodee.Spec.IterAbs
import Toodee.Properties.C08
import Toodee.Proofs.FlatLemmas
/-
  C10 — Cell iterators visit every cell once in row-major order.

  `Cells`/`CellsMut` = `FlattenExact` over `Rows`/`RowsMut`.  A cursor `s` with `Flat.WF s k n` stands for the list
  `s.abs k` of cell positions still to be visited.  Every operation returns what the ideal sequence returns, never panics
  (in particular the `debug_assert!(n < tmp.len())` in `nth`/`nth_back` never fires) or hits `ub`, for every argument
  `< 2^64`, in both build modes; the internal `loop`s terminate within 2 iterations (`fuel ≥ 2`).  `cells()` of an owned
  array or view stands for all `num_cols*num_rows` cell positions in row-major order, each exactly once.
-/
namespace Toodee
variable {α : Type}

theorem C10_next (s : Flat) (k n : Nat) (h : s.WF k n) (fuel : Nat) (hf : 2 ≤ fuel) :
    ∃ s' k', s.next fuel = .ok ((Seq.next (s.abs k)).1, s') ∧ s'.WF k' n ∧
      s'.abs k' = (Seq.next (s.abs k)).2 := by
  obtain ⟨f, rfl⟩ : ∃ f, fuel = f + 2 := ⟨fuel - 2, by omega⟩
  exact FlatL.next_spec h f

theorem C10_next_back (m : Mode) (s : Flat) (k n : Nat) (h : s.WF k n) (fuel : Nat) (hf : 2 ≤ fuel) :
    ∃ s' k', s.nextBack m fuel = .ok ((Seq.nextBack (s.abs k)).1, s') ∧ s'.WF k' n ∧
      s'.abs k' = (Seq.nextBack (s.abs k)).2 := by
  obtain ⟨f, rfl⟩ : ∃ f, fuel = f + 2 := ⟨fuel - 2, by omega⟩
  exact FlatL.nextBack_spec m h f

theorem C10_nth (m : Mode) (s : Flat) (k n : Nat) (h : s.WF k n) (j : Nat) (hj : j < WORD) :
    ∃ s' k', s.nth m j = .ok ((Seq.nth (s.abs k) j).1, s') ∧ s'.WF k' n ∧
      s'.abs k' = (Seq.nth (s.abs k) j).2 := by
  have _ := hj
  exact FlatL.nth_spec m h j

theorem C10_nth_back (m : Mode) (s : Flat) (k n : Nat) (h : s.WF k n) (j : Nat) (hj : j < WORD) :
    ∃ s' k', s.nthBack m j = .ok ((Seq.nthBack (s.abs k) j).1, s') ∧ s'.WF k' n ∧
      s'.abs k' = (Seq.nthBack (s.abs k) j).2 := by
  have _ := hj
  exact FlatL.nthBack_spec m h j

/-- `len()` / `size_hint()` (and `count()`, which folds) -/
theorem C10_len (m : Mode) (s : Flat) (k n : Nat) (h : s.WF k n) : s.sizeHint m = .ok (s.abs k).length := by
  exact FlatL.sizeHint_spec m h

theorem C10_last (m : Mode) (s : Flat) (k n : Nat) (h : s.WF k n) (fuel : Nat) (hf : 2 ≤ fuel) :
    s.last m fuel = .ok (Seq.last (s.abs k)) := by
  obtain ⟨f, rfl⟩ : ∃ f, fuel = f + 2 := ⟨fuel - 2, by omega⟩
  obtain ⟨s', k', h1, _, _⟩ := FlatL.nextBack_spec m h f
  simp [Flat.last, h1, Seq.last]

theorem C10_fold (s : Flat) (k n : Nat) (h : s.WF k n) (fuel : Nat) (hf : k < fuel) :
    s.collect fuel = .ok (s.abs k) := by
  exact FlatL.collect_spec h fuel hf

theorem C10_rfold (m : Mode) (s : Flat) (k n : Nat) (h : s.WF k n) (fuel : Nat) (hf : k < fuel) :
    s.collectBack m fuel = .ok (s.abs k).reverse := by
  exact FlatL.collectBack_spec m h fuel hf

/-- any interleaving of `next`, `next_back`, `nth`, `nth_back`, `len` -/
theorem C10_word (m : Mode) (s : Flat) (k n : Nat) (h : s.WF k n) (fuel : Nat) (hf : 2 ≤ fuel)
    (w : List Seq.Op) (hw : ∀ o ∈ w, o.small) :
    ∃ s' k', s.run m fuel w = .ok ((Seq.run (s.abs k) w).1, s') ∧ s'.WF k' n ∧
      s'.abs k' = (Seq.run (s.abs k) w).2 := by
  have _ := hw
  obtain ⟨f, rfl⟩ : ∃ f, fuel = f + 2 := ⟨fuel - 2, by omega⟩
  exact FlatL.run_spec m h f w

/-- `cells()` / `cells_mut()` / `IntoIterator` of an owned array: all positions `0 .. C*R` in order -/
theorem C10_cells_owned (t : TD α) (h : t.Inv) :
    (Flat.new t.rows).WF t.numRows t.data.length ∧
    (Flat.new t.rows).abs t.numRows = List.range t.data.length ∧
    (Flat.new t.rows).abs t.numRows =
      ((List.range t.numRows).map fun r => (List.range t.numCols).map fun c => t.pos c r).flatten := by
  obtain ⟨hwf, habs⟩ := C08_rows_owned t h
  have e1 : (Flat.new t.rows).abs t.numRows =
      ((List.range t.numRows).map fun r => (List.range t.numCols).map fun c => t.pos c r).flatten := by
    rw [FlatL.new_abs, habs]
    simp only [TD.pos, Nat.add_zero]
    exact FlatL.cells_map_range _ _ _
  refine ⟨FlatL.new_WF hwf, ?_, e1⟩
  rw [e1, h.len, Nat.mul_comm]
  simp only [TD.pos]
  exact FlatL.flatten_range_mul _ _

/-- `cells()` / `cells_mut()` of a view: the positions of all its cells, row-major, each exactly once -/
theorem C10_cells_view (m : Mode) (v : VW) (n : Nat) (h : v.Inv n) :
    ∃ it, v.rows m = .ok it ∧ (Flat.new it).WF v.numRows n ∧
      (Flat.new it).abs v.numRows =
        ((List.range v.numRows).map fun r => (List.range v.numCols).map fun c => v.pos c r).flatten ∧
      ((Flat.new it).abs v.numRows).Nodup ∧ ((Flat.new it).abs v.numRows).length = v.numCols * v.numRows := by
  obtain ⟨it, hit, hwf, habs⟩ := C08_rows_view m v n h
  have e1 : (Flat.new it).abs v.numRows =
      ((List.range v.numRows).map fun r => (List.range v.numCols).map fun c => v.pos c r).flatten := by
    rw [FlatL.new_abs, habs]
    simp only [VW.pos, Nat.add_zero]
    exact FlatL.cells_map_range _ _ _
  refine ⟨it, hit, FlatL.new_WF hwf, e1, ?_, ?_⟩
  · rw [e1]
    simp only [VW.pos]
    exact List.Pairwise.imp (fun hab => Nat.ne_of_lt hab) (FlatL.cells_sorted _ _ _ _ h.stride)
  · rw [FlatL.new_abs, habs, FlatL.cellsOf_length _ v.numCols, List.length_map, List.length_range, Nat.mul_comm]
    intro w hw
    obtain ⟨r, _, rfl⟩ := List.mem_map.1 hw
    rfl

/-- non-vacuity of `C10_cells_owned`: the fresh `cells()` cursor of a concrete 3x2 array is well-formed and stands for the
    positions `0..6` -/
example : (Flat.new (TD.rows (⟨[1, 2, 3, 4, 5, 6], 2, 3⟩ : TD Nat))).WF 2 6 ∧
    (Flat.new (TD.rows (⟨[1, 2, 3, 4, 5, 6], 2, 3⟩ : TD Nat))).abs 2 = [0, 1, 2, 3, 4, 5] := by
  obtain ⟨h1, h2, _⟩ := C10_cells_owned (⟨[1, 2, 3, 4, 5, 6], 2, 3⟩ : TD Nat) ⟨rfl, by decide, by decide⟩
  exact ⟨h1, h2⟩
/-- non-vacuity: collecting it, and one `next` (which opens the first row), as concrete computations -/
example : (Flat.new (TD.rows (⟨[1, 2, 3, 4, 5, 6], 2, 3⟩ : TD Nat))).collect 5 = .ok [0, 1, 2, 3, 4, 5] := by rfl
example : (Flat.new (TD.rows (⟨[1, 2, 3, 4, 5, 6], 2, 3⟩ : TD Nat))).next 2 =
    .ok (some 0, ⟨⟨⟨3, 3⟩, 3, 0⟩, some ⟨1, 2⟩, none⟩) := by rfl
/-- non-vacuity of `C10_cells_view`: `cells()` of a 2x2 window (stride 3, offset 1) of an 8-cell buffer visits 1, 2, 4, 5 -/
example : ∃ it, VW.rows .debug ⟨⟨1, 5⟩, 2, 2, 3⟩ = .ok it ∧ (Flat.new it).abs 2 = [1, 2, 4, 5] := by
  obtain ⟨it, h1, _, h3, _⟩ := C10_cells_view .debug ⟨⟨1, 5⟩, 2, 2, 3⟩ 8
    ⟨by decide, by decide, by decide, by decide, by decide, by decide⟩
  exact ⟨it, h1, h3⟩

end Toodee
