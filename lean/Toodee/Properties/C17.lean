import Toodee.Spec.OpsSpec
import Toodee.Properties.C16
import Toodee.Properties.C13
/-
  C17 — Sorting by a column permutes whole rows into order.

  `sort_by_col` collects the column's cells (cursor of C09), sorts `(index,&key)` pairs stably, builds the swap trace and applies
  it with the implementor's `swap_rows` (C13).  Result: `gather buf (v.mapCells (sortRowsG p))`: new row `j` is old row `p[j]`
  in every column.  The key variants delegate to these (after the `fix:` commit).  Out-of-range column panics.
-/
namespace Toodee
variable {α : Type}

/-- what the implementor's `swap_rows` must satisfy (proved for all three implementors in C13) -/
def SwapRowsSpec (v : VW) (n : Nat) (swapRows : List α → Nat → Nat → Res (List α)) : Prop :=
  ∀ b r1 r2, b.length = n →
    r1 < v.numRows → r2 < v.numRows → swapRows b r1 r2 = .ok (gather b (v.mapCells (swapRowsG r1 r2)))

/-- applying the trace of permutation `p` with `swap_rows` permutes whole rows -/
theorem C17_apply_row_perm (v : VW) (buf : List α) (h : v.Inv buf.length)
    (swapRows : List α → Nat → Nat → Res (List α)) (hsw : SwapRowsSpec v buf.length swapRows)
    (p : List Nat) (hp : p.Perm (List.range v.numRows)) :
    applyRowPerm swapRows buf p = .ok (gather buf (v.mapCells (sortRowsG p))) := by
  exact applyRowPerm_spec v buf h swapRows hsw p hp

/-- `sort_by_col` (and `sort_by_col_key`, `sort_col_ord`).  `col` is the implementor's `col()` (C09). -/
theorem C17_sort_by_col (v : VW) (buf : List α) (h : v.Inv buf.length) (a : Acc) (ha : a.Of v buf.length)
    (col : Nat → Res Col)
    (hcol : ∀ c, c < v.numCols → ∃ it, col c = .ok it ∧ it.WF v.numRows buf.length ∧
      it.abs v.numRows = (List.range v.numRows).map fun r => v.pos c r)
    (swapRows : List α → Nat → Nat → Res (List α)) (hsw : SwapRowsSpec v buf.length swapRows)
    (le : α → α → Bool) (c : Nat) :
    (c < v.numCols →
      a.sortByCol col swapRows buf le c =
        .ok (gather buf (v.mapCells (sortRowsG (stablePerm le
          ((List.range v.numRows).filterMap fun r => buf[v.pos c r]?)))))) ∧
    (¬ c < v.numCols → a.sortByCol col swapRows buf le c = .error .panic) := by
  constructor
  · intro hc
    obtain ⟨it, e, hwf, habs⟩ := hcol c hc
    have hk : (it.abs v.numRows).filterMap (fun p => buf[p]?)
        = (List.range v.numRows).filterMap fun r => buf[v.pos c r]? := by
      rw [habs, List.filterMap_map]; rfl
    have hp := stablePerm_perm le ((List.range v.numRows).filterMap fun r => buf[v.pos c r]?)
    rw [col_keys_length v buf h hc] at hp
    simp only [Acc.sortByCol, ha.cols, hc, not_true_eq_false, if_false, ok_bind, e, sort_collect_col hwf, hk]
    exact C17_apply_row_perm v buf h swapRows hsw _ hp
  · intro hc
    simp only [Acc.sortByCol, ha.cols, hc, not_false_eq_true, if_true, throw_eq, err_bind]

/-- `sort_unstable_by_col` (and its key variant): for every permutation the side sort may return -/
theorem C17_sort_unstable_by_col (v : VW) (buf : List α) (h : v.Inv buf.length) (a : Acc) (ha : a.Of v buf.length)
    (col : Nat → Res Col)
    (hcol : ∀ c, c < v.numCols → ∃ it, col c = .ok it ∧ it.WF v.numRows buf.length ∧
      it.abs v.numRows = (List.range v.numRows).map fun r => v.pos c r)
    (swapRows : List α → Nat → Nat → Res (List α)) (hsw : SwapRowsSpec v buf.length swapRows)
    (p : List Nat) (hp : p.Perm (List.range v.numRows)) (c : Nat) :
    (c < v.numCols → a.sortUnstableByCol col swapRows buf p c = .ok (gather buf (v.mapCells (sortRowsG p)))) ∧
    (¬ c < v.numCols → a.sortUnstableByCol col swapRows buf p c = .error .panic) := by
  constructor
  · intro hc
    obtain ⟨it, e, _, _⟩ := hcol c hc
    simp only [Acc.sortUnstableByCol, ha.cols, hc, not_true_eq_false, if_false, ok_bind, e]
    exact C17_apply_row_perm v buf h swapRows hsw p hp
  · intro hc
    simp only [Acc.sortUnstableByCol, ha.cols, hc, not_false_eq_true, if_true, throw_eq, err_bind]

/-- a row permutation is a bijection of the cells: every row of the result is one original row, each once -/
theorem C17_rows_bijective (C R : Nat) (p : List Nat) (hp : p.Perm (List.range R)) :
    (∀ c r, c < C → r < R → (sortRowsG p (c, r)).2 < R ∧ (sortRowsG p (c, r)).1 = c) ∧
    (∀ c r r', r < R → r' < R → (sortRowsG p (c, r)).2 = (sortRowsG p (c, r')).2 → r = r') := by
  have hlen : p.length = R := by rw [hp.length_eq, List.length_range]
  have hget : ∀ r, r < R → p.getD r r = p.getD r 0 := fun r hr => getD_irrel p (by omega) r 0
  have hfacts := perm_range_facts p (by rw [hlen]; exact hp)
  refine ⟨fun c r _ hr => ⟨?_, rfl⟩, fun c r r' hr hr' he => ?_⟩
  · show p.getD r r < R
    rw [hget r hr]
    have := hfacts.1 r (by omega); omega
  · have he' : p.getD r r = p.getD r' r' := he
    rw [hget r hr, hget r' hr'] at he'
    exact hfacts.2.1 r r' (by omega) (by omega) he'

end Toodee
