import Toodee.Spec.OpsSpec
import Toodee.Properties.C16
import Toodee.Properties.C13
/-
  C17 — Sorting by a column permutes whole rows into order.

  `sort_by_col` collects the column's cells (cursor of C09), sorts `(index,&key)` pairs stably, builds the swap trace and applies
  it with the implementor's `swap_rows` (C13).  Result: `gather buf (v.mapCells (sortRowsG p))`: new row `j` is old row `p[j]`
  in every column.  The key variants delegate to these (after the `fix:` commit).  Out-of-range column panics.
-/
namespace Toodee
variable {α : Type}

/-- what the implementor's `swap_rows` must satisfy (proved for all three implementors in C13) -/
def SwapRowsSpec (v : VW) (n : Nat) (swapRows : List α → Nat → Nat → Res (List α)) : Prop :=
  ∀ b r1 r2, b.length = n →
    r1 < v.numRows → r2 < v.numRows → swapRows b r1 r2 = .ok (gather b (v.mapCells (swapRowsG r1 r2)))

/-- applying the trace of permutation `p` with `swap_rows` permutes whole rows -/
theorem C17_apply_row_perm (v : VW) (buf : List α) (h : v.Inv buf.length)
    (swapRows : List α → Nat → Nat → Res (List α)) (hsw : SwapRowsSpec v buf.length swapRows)
    (p : List Nat) (hp : p.Perm (List.range v.numRows)) :
    applyRowPerm swapRows buf p = .ok (gather buf (v.mapCells (sortRowsG p))) := by
  exact applyRowPerm_spec v buf h swapRows hsw p hp

/-- `sort_by_col` (and `sort_by_col_key`, `sort_col_ord`).  `col` is the implementor's `col()` (C09). -/
theorem C17_sort_by_col (v : VW) (buf : List α) (h : v.Inv buf.length) (a : Acc) (ha : a.Of v buf.length)
    (col : Nat → Res Col)
    (hcol : ∀ c, c < v.numCols → ∃ it, col c = .ok it ∧ it.WF v.numRows buf.length ∧
      it.abs v.numRows = (List.range v.numRows).map fun r => v.pos c r)
    (swapRows : List α → Nat → Nat → Res (List α)) (hsw : SwapRowsSpec v buf.length swapRows)
    (le : α → α → Bool) (c : Nat) :
    (c < v.numCols →
      a.sortByCol col swapRows buf le c =
        .ok (gather buf (v.mapCells (sortRowsG (stablePerm le
          ((List.range v.numRows).filterMap fun r => buf[v.pos c r]?)))))) ∧
    (¬ c < v.numCols → a.sortByCol col swapRows buf le c = .error .panic) := by
  constructor
  · intro hc
    obtain ⟨it, e, hwf, habs⟩ := hcol c hc
    have hk : (it.abs v.numRows).filterMap (fun p => buf[p]?)
        = (List.range v.numRows).filterMap fun r => buf[v.pos c r]? := by
      rw [habs, List.filterMap_map]; rfl
    have hp := stablePerm_perm le ((List.range v.numRows).filterMap fun r => buf[v.pos c r]?)
    rw [col_keys_length v buf h hc] at hp
    simp only [Acc.sortByCol, ha.cols, hc, not_true_eq_false, if_false, ok_bind, e, sort_collect_col hwf, hk]
    exact C17_apply_row_perm v buf h swapRows hsw _ hp
  · intro hc
    simp only [Acc.sortByCol, ha.cols, hc, not_false_eq_true, if_true, throw_eq, err_bind]

/-- `sort_unstable_by_col` (and its key variant): for every permutation the side sort may return -/
theorem C17_sort_unstable_by_col (v : VW) (buf : List α) (h : v.Inv buf.length) (a : Acc) (ha : a.Of v buf.length)
    (col : Nat → Res Col)
    (hcol : ∀ c, c < v.numCols → ∃ it, col c = .ok it ∧ it.WF v.numRows buf.length ∧
      it.abs v.numRows = (List.range v.numRows).map fun r => v.pos c r)
    (swapRows : List α → Nat → Nat → Res (List α)) (hsw : SwapRowsSpec v buf.length swapRows)
    (p : List Nat) (hp : p.Perm (List.range v.numRows)) (c : Nat) :
    (c < v.numCols → a.sortUnstableByCol col swapRows buf p c = .ok (gather buf (v.mapCells (sortRowsG p)))) ∧
    (¬ c < v.numCols → a.sortUnstableByCol col swapRows buf p c = .error .panic) := by
  constructor
  · intro hc
    obtain ⟨it, e, _, _⟩ := hcol c hc
    simp only [Acc.sortUnstableByCol, ha.cols, hc, not_true_eq_false, if_false, ok_bind, e]
    exact C17_apply_row_perm v buf h swapRows hsw p hp
  · intro hc
    simp only [Acc.sortUnstableByCol, ha.cols, hc, not_false_eq_true, if_true, throw_eq, err_bind]

/-- a row permutation is a bijection of the cells: every row of the result is one original row, each once -/
theorem C17_rows_bijective (C R : Nat) (p : List Nat) (hp : p.Perm (List.range R)) :
    (∀ c r, c < C → r < R → (sortRowsG p (c, r)).2 < R ∧ (sortRowsG p (c, r)).1 = c) ∧
    (∀ c r r', r < R → r' < R → (sortRowsG p (c, r)).2 = (sortRowsG p (c, r')).2 → r = r') := by
  have hlen : p.length = R := by rw [hp.length_eq, List.length_range]
  have hget : ∀ r, r < R → p.getD r r = p.getD r 0 := fun r hr => getD_irrel p (by omega) r 0
  have hfacts := perm_range_facts p (by rw [hlen]; exact hp)
  refine ⟨fun c r _ hr => ⟨?_, rfl⟩, fun c r r' hr hr' he => ?_⟩
  · show p.getD r r < R
    rw [hget r hr]
    have := hfacts.1 r (by omega); omega
  · have he' : p.getD r r = p.getD r' r' := he
    rw [hget r hr, hget r' hr'] at he'
    exact hfacts.2.1 r r' (by omega) (by omega) he'

/-- the first clause of the property, on the result buffer: the chosen column of the result is the old column permuted by `p`,
    hence ordered whenever `p` orders the keys (stable variant: `p = stablePerm …`, C16_stable_perm; unstable: the sort contract) -/
theorem C17_result_col_sorted (v : VW) (buf : List α) (h : v.Inv buf.length) (p : List Nat)
    (hp : p.Perm (List.range v.numRows)) (c : Nat) (hc : c < v.numCols) (le : α → α → Bool)
    (hsorted : (p.filterMap (((List.range v.numRows).filterMap fun r => buf[v.pos c r]?)[·]?)).Pairwise (fun a b => le a b = true)) :
    ((List.range v.numRows).filterMap fun r => (gather buf (v.mapCells (sortRowsG p)))[v.pos c r]?).Pairwise (fun a b => le a b = true) ∧
    ((List.range v.numRows).filterMap fun r => (gather buf (v.mapCells (sortRowsG p)))[v.pos c r]?) =
      p.filterMap (((List.range v.numRows).filterMap fun r => buf[v.pos c r]?)[·]?) := by
  have hlen : p.length = v.numRows := by rw [hp.length_eq, List.length_range]
  have hg : ∀ c r, c < v.numCols → r < v.numRows →
      (sortRowsG p (c, r)).1 < v.numCols ∧ (sortRowsG p (c, r)).2 < v.numRows := fun c r hc' hr => by
    have := (C17_rows_bijective v.numCols v.numRows p hp).1 c r hc' hr
    exact ⟨by rw [this.2]; exact hc', this.1⟩
  obtain ⟨hglen, _, hcell⟩ := C04_frame_perm v buf h (sortRowsG p) hg
  -- the keys, cell by cell
  have hkeysome : ∀ (b : List α), b.length = buf.length →
      ∀ x ∈ List.range v.numRows, (b[v.pos c x]?).isSome := by
    intro b hb x hx
    rw [List.getElem?_eq_getElem (by rw [hb]; exact VW.pos_lt h hc (List.mem_range.1 hx))]
    rfl
  have hkey : ∀ (b : List α), b.length = buf.length → ∀ j,
      ((List.range v.numRows).filterMap fun r => b[v.pos c r]?)[j]? = if j < v.numRows then b[v.pos c j]? else none := by
    intro b hb j
    rw [filterMap_getElem?_of_isSome _ _ (hkeysome b hb)]
    by_cases hj : j < v.numRows
    · rw [if_pos hj, List.getElem?_range hj, Option.bind_some]
    · rw [if_neg hj, List.getElem?_eq_none (by simp; omega)]; rfl
  have hsome : ∀ x ∈ p, ((((List.range v.numRows).filterMap fun r => buf[v.pos c r]?))[x]?).isSome := by
    intro x hx
    have hx' : x < v.numRows := List.mem_range.1 (hp.mem_iff.1 hx)
    rw [hkey buf rfl, if_pos hx']
    exact hkeysome buf rfl x (List.mem_range.2 hx')
  have heq : ((List.range v.numRows).filterMap fun r => (gather buf (v.mapCells (sortRowsG p)))[v.pos c r]?) =
      p.filterMap (((List.range v.numRows).filterMap fun r => buf[v.pos c r]?)[·]?) := by
    apply List.ext_getElem?
    intro k
    rw [hkey _ hglen, filterMap_getElem?_of_isSome _ _ hsome]
    by_cases hk : k < v.numRows
    · have hpk : p.getD k k < v.numRows := (hg c k hc hk).2
      have hpk' : p[k]? = some (p.getD k k) := by
        rw [List.getD_eq_getElem?_getD, List.getElem?_eq_getElem (by omega)]; rfl
      rw [if_pos hk, hcell c k hc hk, hpk', Option.bind_some, hkey buf rfl, if_pos hpk]
      rfl
    · rw [if_neg hk, List.getElem?_eq_none (by omega)]; rfl
  exact ⟨by rw [heq]; exact hsorted, heq⟩

end Toodee
