import Toodee.Spec.OpsSpec
import Toodee.Properties.C16
import Toodee.Properties.C13
/-
  C17 — Sorting by a column permutes whole rows into order.

  `sort_by_col` collects the column's cells (cursor of C09), sorts `(index,&key)` pairs stably, builds the swap trace and applies
  it with the implementor's `swap_rows` (C13).  Result: `gather buf (v.mapCells (sortRowsG p))`: new row `j` is old row `p[j]`
  in every column.  The key variants delegate to these (after the `fix:` commit).  Out-of-range column panics.
-/
namespace Toodee
variable {α : Type}

/-- what the implementor's `swap_rows` must satisfy (proved for all three implementors in C13) -/
def SwapRowsSpec (v : VW) (n : Nat) (swapRows : List α → Nat → Nat → Res (List α)) : Prop :=
  ∀ b r1 r2, b.length = n →
    r1 < v.numRows → r2 < v.numRows → swapRows b r1 r2 = .ok (gather b (v.mapCells (swapRowsG r1 r2)))

/-- applying the trace of permutation `p` with `swap_rows` permutes whole rows -/
theorem C17_apply_row_perm (v : VW) (buf : List α) (h : v.Inv buf.length)
    (swapRows : List α → Nat → Nat → Res (List α)) (hsw : SwapRowsSpec v buf.length swapRows)
    (p : List Nat) (hp : p.Perm (List.range v.numRows)) :
    applyRowPerm swapRows buf p = .ok (gather buf (v.mapCells (sortRowsG p))) := by
  exact applyRowPerm_spec v buf h swapRows hsw p hp

/-- the keys of column `c`, top to bottom -/
def VW.colKeys (v : VW) (buf : List α) (c : Nat) : List α := (List.range v.numRows).filterMap fun r => buf[v.pos c r]?

/-- **Every `sort_*_col*` method** (`Acc.sortColWith`: the one body all five share; `col` = the implementor's `col()` (C09),
    `swapRows` = the implementor's `swap_rows` (C13)): out-of-range column panics; a column too long for the side table panics;
    a panic of caller code inside the side sort is the outcome (nothing written before); otherwise whole rows are permuted by the
    permutation `p` the side sort returned: new row `j` is old row `p[j]`. -/
theorem C17_sort_col_with (v : VW) (buf : List α) (h : v.Inv buf.length) (a : Acc) (ha : a.Of v buf.length)
    (col : Nat → Res Col)
    (hcol : ∀ c, c < v.numCols → ∃ it, col c = .ok it ∧ it.WF v.numRows buf.length ∧
      it.abs v.numRows = (List.range v.numRows).map fun r => v.pos c r)
    (swapRows : List α → Nat → Nat → Res (List α)) (hsw : SwapRowsSpec v buf.length swapRows)
    (lim : Nat) (side : SideSort α) (c : Nat) :
    (¬ c < v.numCols → a.sortColWith col swapRows buf lim side c = .error .panic) ∧
    (c < v.numCols → ¬ v.numRows ≤ lim → a.sortColWith col swapRows buf lim side c = .error .panic) ∧
    (c < v.numCols → v.numRows ≤ lim → ∀ e, side (v.colKeys buf c) = .error e →
      a.sortColWith col swapRows buf lim side c = .error e) ∧
    (c < v.numCols → v.numRows ≤ lim → ∀ p, side (v.colKeys buf c) = .ok p → p.Perm (List.range v.numRows) →
      a.sortColWith col swapRows buf lim side c = .ok (gather buf (v.mapCells (sortRowsG p)))) := by
  have hk : ∀ (it : Col), it.abs v.numRows = (List.range v.numRows).map (fun r => v.pos c r) →
      (it.abs v.numRows).filterMap (fun p => buf[p]?) = v.colKeys buf c := by
    intro it habs
    rw [habs, List.filterMap_map]; rfl
  have hl : c < v.numCols → (v.colKeys buf c).length = v.numRows := fun hc => col_keys_length v buf h hc
  refine ⟨fun hc => ?_, fun hc hlim => ?_, fun hc hlim e he => ?_, fun hc hlim p hs hp => ?_⟩
  · simp only [Acc.sortColWith, ha.cols, hc, not_false_eq_true, if_true, throw_eq, err_bind]
  · obtain ⟨it, e, hwf, habs⟩ := hcol c hc
    have hd : sideAllocOk lim v.numRows = false := by
      simp only [sideAllocOk, decide_eq_false_iff_not]; exact hlim
    simp only [Acc.sortColWith, ha.cols, hc, not_true_eq_false, if_false, ok_bind, e, sort_collect_col hwf, hk it habs,
      hl hc, hd, Bool.not_false, if_true, throw_eq, err_bind]
  · obtain ⟨it, e', hwf, habs⟩ := hcol c hc
    have hd : sideAllocOk lim v.numRows = true := by
      simp only [sideAllocOk, decide_eq_true_eq]; exact hlim
    simp only [Acc.sortColWith, ha.cols, hc, not_true_eq_false, if_false, ok_bind, e', sort_collect_col hwf, hk it habs,
      hl hc, hd, Bool.not_true, Bool.false_eq_true, he, err_bind]
  · obtain ⟨it, e', hwf, habs⟩ := hcol c hc
    have hd : sideAllocOk lim v.numRows = true := by
      simp only [sideAllocOk, decide_eq_true_eq]; exact hlim
    simp only [Acc.sortColWith, ha.cols, hc, not_true_eq_false, if_false, ok_bind, e', sort_collect_col hwf, hk it habs,
      hl hc, hd, Bool.not_true, Bool.false_eq_true, hs]
    exact C17_apply_row_perm v buf h swapRows hsw p hp

/-- the key column of a view has `num_rows` cells -/
theorem C17_key_col_length (v : VW) (buf : List α) (h : v.Inv buf.length) (c : Nat) (hc : c < v.numCols) :
    (v.colKeys buf c).length = v.numRows := by
  exact col_keys_length v buf h hc

/-- `sort_by_col(col, compare)` -/
theorem C17_sort_by_col (v : VW) (buf : List α) (h : v.Inv buf.length) (a : Acc) (ha : a.Of v buf.length)
    (col : Nat → Res Col)
    (hcol : ∀ c, c < v.numCols → ∃ it, col c = .ok it ∧ it.WF v.numRows buf.length ∧
      it.abs v.numRows = (List.range v.numRows).map fun r => v.pos c r)
    (swapRows : List α → Nat → Nat → Res (List α)) (hsw : SwapRowsSpec v buf.length swapRows)
    (lim : Nat) (hlim : v.numRows ≤ lim) (le : α → α → Bool) (c : Nat) :
    (c < v.numCols →
      a.sortByCol col swapRows buf lim le c =
        .ok (gather buf (v.mapCells (sortRowsG (stablePerm le
          ((List.range v.numRows).filterMap fun r => buf[v.pos c r]?)))))) ∧
    (¬ c < v.numCols → a.sortByCol col swapRows buf lim le c = .error .panic) := by
  obtain ⟨h1, _, _, h4⟩ := C17_sort_col_with v buf h a ha col hcol swapRows hsw lim (sideStable le) c
  refine ⟨fun hc => ?_, fun hc => h1 hc⟩
  have hp := stablePerm_perm le (v.colKeys buf c)
  rw [C17_key_col_length v buf h c hc] at hp
  exact h4 hc hlim _ rfl hp

/-- `sort_unstable_by_col(col, compare)`: for every permutation the side sort may return -/
theorem C17_sort_unstable_by_col (v : VW) (buf : List α) (h : v.Inv buf.length) (a : Acc) (ha : a.Of v buf.length)
    (col : Nat → Res Col)
    (hcol : ∀ c, c < v.numCols → ∃ it, col c = .ok it ∧ it.WF v.numRows buf.length ∧
      it.abs v.numRows = (List.range v.numRows).map fun r => v.pos c r)
    (swapRows : List α → Nat → Nat → Res (List α)) (hsw : SwapRowsSpec v buf.length swapRows)
    (lim : Nat) (hlim : v.numRows ≤ lim) (p : List Nat) (hp : p.Perm (List.range v.numRows)) (c : Nat) :
    (c < v.numCols → a.sortUnstableByCol col swapRows buf lim p c = .ok (gather buf (v.mapCells (sortRowsG p)))) ∧
    (¬ c < v.numCols → a.sortUnstableByCol col swapRows buf lim p c = .error .panic) := by
  obtain ⟨h1, _, _, h4⟩ := C17_sort_col_with v buf h a ha col hcol swapRows hsw lim (sideGiven p) c
  refine ⟨fun hc => h4 hc hlim p ?_ hp, fun hc => h1 hc⟩
  have hp' := hp
  rw [← C17_key_col_length v buf h c hc] at hp'
  simp [sideGiven, hp']

/-- the key and natural-order variants are the comparator variants with the derived comparator (src/sort.rs:168-170, 216-233) -/
theorem C17_variants_delegate {κ : Type} (a : Acc) (col : Nat → Res Col) (swapRows : List α → Nat → Nat → Res (List α))
    (buf : List α) (lim : Nat) (key : α → κ) (leK : κ → κ → Bool) (leOrd : α → α → Bool) (p : List Nat) (c : Nat) :
    a.sortByColKey col swapRows buf lim key leK c = a.sortByCol col swapRows buf lim (fun x y => leK (key x) (key y)) c ∧
    a.sortColOrd col swapRows buf lim leOrd c = a.sortByCol col swapRows buf lim leOrd c ∧
    a.sortUnstableByColKey col swapRows buf lim p c = a.sortUnstableByCol col swapRows buf lim p c :=
  ⟨rfl, rfl, rfl⟩

/-- the three implementors' `swap_rows` meet `SwapRowsSpec`: the `TooDee` override, the `TooDeeViewMut` override, and the
    trait default (what a third-party implementor gets) -/
theorem C17_swap_rows_spec_owned (m : Mode) (t : TD α) (h : t.Inv) :
    SwapRowsSpec t.asView t.data.length (fun b r1 r2 => ({ t with data := b } : TD α).swapRows m r1 r2) := by
  intro b r1 r2 hb hr1 hr2
  have hrw : t.asView.numRows < WORD := (TD.asView_inv t h).1.rows_word
  have h' : ({ t with data := b } : TD α).Inv := ⟨by rw [← h.len]; exact hb, h.zero, by
    show b.length < WORD
    rw [hb]; exact h.word⟩
  exact (C13_swap_rows_owned m ({ t with data := b } : TD α) h' r1 r2 ⟨by omega, by omega⟩).1 ⟨hr1, hr2⟩

theorem C17_swap_rows_spec_view (m : Mode) (v : VW) (n : Nat) (h : v.Inv n) :
    SwapRowsSpec (α := α) v n (fun b r1 r2 => v.swapRows m b r1 r2) := by
  intro b r1 r2 hb hr1 hr2
  have hrw := h.rows_word
  subst hb
  exact (C13_swap_rows_view m v b h r1 r2 ⟨by omega, by omega⟩).1 ⟨hr1, hr2⟩

theorem C17_swap_rows_spec_default (m : Mode) (v : VW) (n : Nat) (h : v.Inv n) (a : Acc) (ha : a.Of v n) :
    SwapRowsSpec (α := α) v n (fun b r1 r2 => a.swapRows m b r1 r2) := by
  intro b r1 r2 hb hr1 hr2
  have hrw := h.rows_word
  subst hb
  exact (C13_swap_rows_default m v b h a ha r1 r2 ⟨by omega, by omega⟩).1 ⟨hr1, hr2⟩

/-- a row permutation is a bijection of the cells: every row of the result is one original row, each once -/
theorem C17_rows_bijective (C R : Nat) (p : List Nat) (hp : p.Perm (List.range R)) :
    (∀ c r, c < C → r < R → (sortRowsG p (c, r)).2 < R ∧ (sortRowsG p (c, r)).1 = c) ∧
    (∀ c r r', r < R → r' < R → (sortRowsG p (c, r)).2 = (sortRowsG p (c, r')).2 → r = r') := by
  have hlen : p.length = R := by rw [hp.length_eq, List.length_range]
  have hget : ∀ r, r < R → p.getD r r = p.getD r 0 := fun r hr => getD_irrel p (by omega) r 0
  have hfacts := perm_range_facts p (by rw [hlen]; exact hp)
  refine ⟨fun c r _ hr => ⟨?_, rfl⟩, fun c r r' hr hr' he => ?_⟩
  · show p.getD r r < R
    rw [hget r hr]
    have := hfacts.1 r (by omega); omega
  · have he' : p.getD r r = p.getD r' r' := he
    rw [hget r hr, hget r' hr'] at he'
    exact hfacts.2.1 r r' (by omega) (by omega) he'

/-- the first clause of the property, on the result buffer: the chosen column of the result is the old column permuted by `p`,
    hence ordered whenever `p` orders the keys (stable variant: `p = stablePerm …`, C16_stable_perm; unstable: the sort contract) -/
theorem C17_result_col_sorted (v : VW) (buf : List α) (h : v.Inv buf.length) (p : List Nat)
    (hp : p.Perm (List.range v.numRows)) (c : Nat) (hc : c < v.numCols) (le : α → α → Bool)
    (hsorted : (p.filterMap (((List.range v.numRows).filterMap fun r => buf[v.pos c r]?)[·]?)).Pairwise (fun a b => le a b = true)) :
    ((List.range v.numRows).filterMap fun r => (gather buf (v.mapCells (sortRowsG p)))[v.pos c r]?).Pairwise (fun a b => le a b = true) ∧
    ((List.range v.numRows).filterMap fun r => (gather buf (v.mapCells (sortRowsG p)))[v.pos c r]?) =
      p.filterMap (((List.range v.numRows).filterMap fun r => buf[v.pos c r]?)[·]?) := by
  have hlen : p.length = v.numRows := by rw [hp.length_eq, List.length_range]
  have hg : ∀ c r, c < v.numCols → r < v.numRows →
      (sortRowsG p (c, r)).1 < v.numCols ∧ (sortRowsG p (c, r)).2 < v.numRows := fun c r hc' hr => by
    have := (C17_rows_bijective v.numCols v.numRows p hp).1 c r hc' hr
    exact ⟨by rw [this.2]; exact hc', this.1⟩
  obtain ⟨hglen, _, hcell⟩ := C04_frame_perm v buf h (sortRowsG p) hg
  -- the keys, cell by cell
  have hkeysome : ∀ (b : List α), b.length = buf.length →
      ∀ x ∈ List.range v.numRows, (b[v.pos c x]?).isSome := by
    intro b hb x hx
    rw [List.getElem?_eq_getElem (by rw [hb]; exact VW.pos_lt h hc (List.mem_range.1 hx))]
    rfl
  have hkey : ∀ (b : List α), b.length = buf.length → ∀ j,
      ((List.range v.numRows).filterMap fun r => b[v.pos c r]?)[j]? = if j < v.numRows then b[v.pos c j]? else none := by
    intro b hb j
    rw [filterMap_getElem?_of_isSome _ _ (hkeysome b hb)]
    by_cases hj : j < v.numRows
    · rw [if_pos hj, List.getElem?_range hj, Option.bind_some]
    · rw [if_neg hj, List.getElem?_eq_none (by simp; omega)]; rfl
  have hsome : ∀ x ∈ p, ((((List.range v.numRows).filterMap fun r => buf[v.pos c r]?))[x]?).isSome := by
    intro x hx
    have hx' : x < v.numRows := List.mem_range.1 (hp.mem_iff.1 hx)
    rw [hkey buf rfl, if_pos hx']
    exact hkeysome buf rfl x (List.mem_range.2 hx')
  have heq : ((List.range v.numRows).filterMap fun r => (gather buf (v.mapCells (sortRowsG p)))[v.pos c r]?) =
      p.filterMap (((List.range v.numRows).filterMap fun r => buf[v.pos c r]?)[·]?) := by
    apply List.ext_getElem?
    intro k
    rw [hkey _ hglen, filterMap_getElem?_of_isSome _ _ hsome]
    by_cases hk : k < v.numRows
    · have hpk : p.getD k k < v.numRows := (hg c k hc hk).2
      have hpk' : p[k]? = some (p.getD k k) := by
        rw [List.getD_eq_getElem?_getD, List.getElem?_eq_getElem (by omega)]; rfl
      rw [if_pos hk, hcell c k hc hk, hpk', Option.bind_some, hkey buf rfl, if_pos hpk]
      rfl
    · rw [if_neg hk, List.getElem?_eq_none (by omega)]; rfl
  exact ⟨by rw [heq]; exact hsorted, heq⟩

/-- **The property's first sentence for the stable comparator variant, in one statement**: for a total preorder `le` and a valid
    column, `sort_by_col` succeeds; the result is the old array with whole rows permuted by a permutation `p` of the row indices;
    the chosen column of the result is ordered by `le`; rows whose keys compare equal keep their original top-to-bottom order. -/
theorem C17_sort_by_col_ordered (v : VW) (buf : List α) (h : v.Inv buf.length) (a : Acc) (ha : a.Of v buf.length)
    (col : Nat → Res Col)
    (hcol : ∀ c, c < v.numCols → ∃ it, col c = .ok it ∧ it.WF v.numRows buf.length ∧
      it.abs v.numRows = (List.range v.numRows).map fun r => v.pos c r)
    (swapRows : List α → Nat → Nat → Res (List α)) (hsw : SwapRowsSpec v buf.length swapRows)
    (lim : Nat) (hlim : v.numRows ≤ lim) (le : α → α → Bool)
    (htrans : ∀ a b c, le a b → le b c → le a c) (htotal : ∀ a b, le a b ∨ le b a)
    (c : Nat) (hc : c < v.numCols) :
    ∃ p buf', a.sortByCol col swapRows buf lim le c = .ok buf' ∧ p.Perm (List.range v.numRows) ∧
      buf' = gather buf (v.mapCells (sortRowsG p)) ∧
      (v.colKeys buf' c).Pairwise (fun x y => le x y = true) ∧
      (∀ i j, i < j → j < v.numRows → ∀ x y, buf[v.pos c (p.getD i 0)]? = some x → buf[v.pos c (p.getD j 0)]? = some y →
        le y x = true → p.getD i 0 < p.getD j 0) := by
  have hl := C17_key_col_length v buf h c hc
  obtain ⟨hperm, hsorted, hstab⟩ := C16_stable_perm le htrans htotal (v.colKeys buf c)
  have hperm' : (stablePerm le (v.colKeys buf c)).Perm (List.range v.numRows) := by
    rw [hl] at hperm; exact hperm
  have hplen : (stablePerm le (v.colKeys buf c)).length = v.numRows := by
    rw [hperm'.length_eq, List.length_range]
  have hfacts := perm_range_facts (stablePerm le (v.colKeys buf c)) (by rw [hplen]; exact hperm')
  have hkeysome : ∀ x ∈ List.range v.numRows, (buf[v.pos c x]?).isSome := by
    intro x hx
    rw [List.getElem?_eq_getElem (VW.pos_lt h hc (List.mem_range.1 hx))]
    rfl
  have hkey : ∀ k, k < v.numRows → (v.colKeys buf c)[k]? = buf[v.pos c k]? := by
    intro k hk
    show ((List.range v.numRows).filterMap fun r => buf[v.pos c r]?)[k]? = _
    rw [filterMap_getElem?_of_isSome _ _ hkeysome, List.getElem?_range hk, Option.bind_some]
  have hpk : ∀ k, k < v.numRows → (stablePerm le (v.colKeys buf c)).getD k 0 < v.numRows := by
    intro k hk
    have := hfacts.1 k (by omega); omega
  refine ⟨stablePerm le (v.colKeys buf c), _,
    (C17_sort_by_col v buf h a ha col hcol swapRows hsw lim hlim le c).1 hc, hperm', rfl,
    (C17_result_col_sorted v buf h _ hperm' c hc le hsorted).1, ?_⟩
  intro i j hij hj x y hx hy hyx
  rw [← hkey _ (hpk i (by omega))] at hx
  rw [← hkey _ (hpk j hj)] at hy
  exact hstab i j hij (by omega) x y hx hy hyx

/-- the same for the key-function variant: ordered by the keys, rows with equal keys keep their order -/
theorem C17_sort_by_col_key_ordered {κ : Type} (v : VW) (buf : List α) (h : v.Inv buf.length) (a : Acc) (ha : a.Of v buf.length)
    (col : Nat → Res Col)
    (hcol : ∀ c, c < v.numCols → ∃ it, col c = .ok it ∧ it.WF v.numRows buf.length ∧
      it.abs v.numRows = (List.range v.numRows).map fun r => v.pos c r)
    (swapRows : List α → Nat → Nat → Res (List α)) (hsw : SwapRowsSpec v buf.length swapRows)
    (lim : Nat) (hlim : v.numRows ≤ lim) (key : α → κ) (leK : κ → κ → Bool)
    (htrans : ∀ a b c, leK a b → leK b c → leK a c) (htotal : ∀ a b, leK a b ∨ leK b a)
    (c : Nat) (hc : c < v.numCols) :
    ∃ p buf', a.sortByColKey col swapRows buf lim key leK c = .ok buf' ∧ p.Perm (List.range v.numRows) ∧
      buf' = gather buf (v.mapCells (sortRowsG p)) ∧
      (v.colKeys buf' c).Pairwise (fun x y => leK (key x) (key y) = true) ∧
      (∀ i j, i < j → j < v.numRows → ∀ x y, buf[v.pos c (p.getD i 0)]? = some x → buf[v.pos c (p.getD j 0)]? = some y →
        leK (key y) (key x) = true → p.getD i 0 < p.getD j 0) := by
  exact C17_sort_by_col_ordered v buf h a ha col hcol swapRows hsw lim hlim
    (fun x y => leK (key x) (key y)) (fun a b c => htrans (key a) (key b) (key c)) (fun a b => htotal (key a) (key b)) c hc

/-- … and for the natural-order variant `sort_col_ord` (`leOrd` = `T: Ord`): ordered, ties keep their order -/
theorem C17_sort_col_ord_ordered (v : VW) (buf : List α) (h : v.Inv buf.length) (a : Acc) (ha : a.Of v buf.length)
    (col : Nat → Res Col)
    (hcol : ∀ c, c < v.numCols → ∃ it, col c = .ok it ∧ it.WF v.numRows buf.length ∧
      it.abs v.numRows = (List.range v.numRows).map fun r => v.pos c r)
    (swapRows : List α → Nat → Nat → Res (List α)) (hsw : SwapRowsSpec v buf.length swapRows)
    (lim : Nat) (hlim : v.numRows ≤ lim) (leOrd : α → α → Bool)
    (htrans : ∀ a b c, leOrd a b → leOrd b c → leOrd a c) (htotal : ∀ a b, leOrd a b ∨ leOrd b a)
    (c : Nat) (hc : c < v.numCols) :
    ∃ p buf', a.sortColOrd col swapRows buf lim leOrd c = .ok buf' ∧ p.Perm (List.range v.numRows) ∧
      buf' = gather buf (v.mapCells (sortRowsG p)) ∧
      (v.colKeys buf' c).Pairwise (fun x y => leOrd x y = true) ∧
      (∀ i j, i < j → j < v.numRows → ∀ x y, buf[v.pos c (p.getD i 0)]? = some x → buf[v.pos c (p.getD j 0)]? = some y →
        leOrd y x = true → p.getD i 0 < p.getD j 0) :=
  C17_sort_by_col_ordered v buf h a ha col hcol swapRows hsw lim hlim leOrd htrans htotal c hc

end Toodee
