import Toodee.Spec.IterAbs
import Toodee.Proofs.IterLemmas
/-
  C08 — Row iterators behave as an ideal double-ended exact-size sequence.

  Simulation: a cursor `it` satisfying `WF it k n` stands for the list `it.abs k` of its `k` remaining row windows.
  Every operation of `Rows`/`RowsMut` (one shared transcription, see Impl/Iter.lean) returns exactly what the ideal
  sequence returns, never panics or hits `ub`, and leaves a well-formed cursor standing for the ideal remainder — for
  every `n < 2^64` argument, in both build modes.  `rows()`/`rows_mut()` of an owned array or of a view start
  well-formed and stand for the `num_rows` row windows `⟨pos 0 r, num_cols⟩`, top to bottom; these windows are pairwise
  disjoint (so `rows_mut()` hands out disjoint slices of the root buffer).
-/
namespace Toodee
variable {α : Type}

theorem C08_next (it : Rows) (k n : Nat) (h : it.WF k n) :
    ∃ it', it.next = .ok ((Seq.next (it.abs k)).1, it') ∧ it'.WF (k - 1) n ∧
      it'.abs (k - 1) = (Seq.next (it.abs k)).2 := by
  obtain ⟨it', h1, h2, _, _, h5⟩ := Rows.next_spec h
  exact ⟨it', h1, h2, h5⟩

theorem C08_next_back (m : Mode) (it : Rows) (k n : Nat) (h : it.WF k n) :
    ∃ it', it.nextBack m = .ok ((Seq.nextBack (it.abs k)).1, it') ∧ it'.WF (k - 1) n ∧
      it'.abs (k - 1) = (Seq.nextBack (it.abs k)).2 := by
  obtain ⟨it', h1, h2, _, _, h5⟩ := Rows.nextBack_spec m h
  exact ⟨it', h1, h2, h5⟩

theorem C08_nth (m : Mode) (it : Rows) (k n : Nat) (h : it.WF k n) (j : Nat) (hj : j < WORD) :
    ∃ it', it.nth m j = .ok ((Seq.nth (it.abs k) j).1, it') ∧ it'.WF (k - (j + 1)) n ∧
      it'.abs (k - (j + 1)) = (Seq.nth (it.abs k) j).2 := by
  obtain ⟨it', h1, h2, _, _, h5⟩ := Rows.nth_spec m h j
  exact ⟨it', h1, h2, h5⟩

theorem C08_nth_back (m : Mode) (it : Rows) (k n : Nat) (h : it.WF k n) (j : Nat) (hj : j < WORD) :
    ∃ it', it.nthBack m j = .ok ((Seq.nthBack (it.abs k) j).1, it') ∧ it'.WF (k - (j + 1)) n ∧
      it'.abs (k - (j + 1)) = (Seq.nthBack (it.abs k) j).2 := by
  obtain ⟨it', h1, h2, _, _, h5⟩ := Rows.nthBack_spec m h j
  exact ⟨it', h1, h2, h5⟩

/-- `len()`, `size_hint()`, `count()` -/
theorem C08_len (m : Mode) (it : Rows) (k n : Nat) (h : it.WF k n) : it.sizeHint m = .ok k := by
  exact Rows.sizeHint_spec m h

theorem C08_last (m : Mode) (it : Rows) (k n : Nat) (h : it.WF k n) :
    it.last m = .ok (Seq.last (it.abs k)) := by
  exact Rows.last_spec m h

/-- `fold` visits exactly the remaining rows in order; `rfold` in reverse order -/
theorem C08_fold (it : Rows) (k n : Nat) (h : it.WF k n) (fuel : Nat) (hf : k < fuel) :
    it.collect fuel = .ok (it.abs k) := by
  exact Rows.collect_spec h fuel hf

theorem C08_rfold (m : Mode) (it : Rows) (k n : Nat) (h : it.WF k n) (fuel : Nat) (hf : k < fuel) :
    it.collectBack m fuel = .ok (it.abs k).reverse := by
  exact Rows.collectBack_spec m h fuel hf

/-- any interleaving of `next`, `next_back`, `nth`, `nth_back`, `len`: the whole trace equals the ideal sequence's -/
theorem C08_word (m : Mode) (it : Rows) (k n : Nat) (h : it.WF k n) (w : List Seq.Op)
    (hw : ∀ o ∈ w, o.small) :
    ∃ it' k', it.run m w = .ok ((Seq.run (it.abs k) w).1, it') ∧ it'.WF k' n ∧
      it'.abs k' = (Seq.run (it.abs k) w).2 := by
  obtain ⟨it', k', h1, h2, _, _, h5⟩ := Rows.run_spec m h w
  exact ⟨it', k', h1, h2, h5⟩

/-- `rows()` / `rows_mut()` of an owned array -/
theorem C08_rows_owned (t : TD α) (h : t.Inv) :
    t.rows.WF t.numRows t.data.length ∧
    t.rows.abs t.numRows = (List.range t.numRows).map fun r => ⟨t.pos 0 r, t.numCols⟩ := by
  obtain ⟨h1, _, _, h4⟩ := TD.rows_WF t h
  exact ⟨h1, h4⟩

/-- `rows()` / `rows_mut()` of a view or mutable view -/
theorem C08_rows_view (m : Mode) (v : VW) (n : Nat) (h : v.Inv n) :
    ∃ it, v.rows m = .ok it ∧ it.WF v.numRows n ∧
      it.abs v.numRows = (List.range v.numRows).map fun r => ⟨v.pos 0 r, v.numCols⟩ := by
  obtain ⟨it, h1, h2, _, _, _, h6⟩ := VW.rows_WF m v n h
  exact ⟨it, h1, h2, h6⟩

/-- the rows handed out are pairwise disjoint windows inside the buffer -/
theorem C08_rows_disjoint (it : Rows) (k n : Nat) (h : it.WF k n) :
    (it.abs k).Pairwise Win.Disjoint ∧ ∀ w ∈ it.abs k, w.off + w.len ≤ n ∧ w.len = it.cols := by
  exact ⟨Rows.abs_pairwise_disjoint it k, Rows.abs_inside h⟩

end Toodee

namespace Toodee

/-- `RowsMut::next_back` as written in the Rust computes the same result as the shared transcription `Rows.nextBack`
    (so every C08 theorem about `nextBack` is a theorem about the mutable cursor's own text). -/
theorem C08_next_back_mut_eq (m : Mode) (it : Rows) : it.nextBackMut m = it.nextBack m := by
  unfold Rows.nextBackMut Rows.nextBack
  by_cases h0 : it.v.len = 0
  · simp [h0]
  · simp only [h0, if_false]
    cases hm : usub m it.v.len it.cols with
    | error e => simp
    | ok mid =>
      simp only [ok_bind]
      cases hs : it.v.splitAt mid with
      | error e => simp
      | ok fs =>
        obtain ⟨fst, snd⟩ := fs
        simp only [ok_bind]
        have hfl : fst.len = mid := by
          unfold Win.splitAt at hs
          split at hs
          · simp only [pure_eq] at hs; injection hs with hs; injection hs with h1 h2; rw [← h1]
          · simp at hs
        by_cases hf : fst.len = 0
        · simp [hf]
        · simp [hf, hfl]

/-- non-vacuity: the row cursor of a 2x2 window (stride 3, offset 1) of an 8-cell buffer is well-formed with 2 rows left and
    stands for the windows `⟨1,2⟩`, `⟨4,2⟩` -/
example : (⟨⟨1, 5⟩, 2, 1⟩ : Rows).WF 2 8 := ⟨by decide, by decide, by decide, by decide, by decide⟩
example : VW.rows .debug ⟨⟨1, 5⟩, 2, 2, 3⟩ = .ok ⟨⟨1, 5⟩, 2, 1⟩ ∧
    (⟨⟨1, 5⟩, 2, 1⟩ : Rows).abs 2 = [⟨1, 2⟩, ⟨4, 2⟩] := ⟨rfl, rfl⟩
/-- non-vacuity of `C08_next`: on that cursor `next` yields the first row window and leaves a well-formed cursor -/
example : ∃ it', (⟨⟨1, 5⟩, 2, 1⟩ : Rows).next = .ok (some ⟨1, 2⟩, it') ∧ it'.WF 1 8 := by
  obtain ⟨it', h1, h2, _⟩ := C08_next ⟨⟨1, 5⟩, 2, 1⟩ 2 8 ⟨by decide, by decide, by decide, by decide, by decide⟩
  exact ⟨it', h1, h2⟩
/-- non-vacuity of `C08_rows_owned`: `rows()` of a concrete 3x2 array stands for its two row windows -/
example : (TD.rows (⟨[1, 2, 3, 4, 5, 6], 2, 3⟩ : TD Nat)).abs 2 = [⟨0, 3⟩, ⟨3, 3⟩] :=
  (C08_rows_owned (⟨[1, 2, 3, 4, 5, 6], 2, 3⟩ : TD Nat) ⟨rfl, by decide, by decide⟩).2

/-- **the ideal sequence by counting** (what the oracle evaluates for arrays of up to `usize::MAX` zero-sized cells, where no list
    can be enumerated): for every sequence and operation, whether an item is yielded and how many items remain are functions of
    the length alone (`Seq.cstep`), and `len` reports that length -/
theorem C08_counting {ι : Type} (l : List ι) (op : Seq.Op) :
    (Seq.step l op).2.length = (Seq.cstep l.length op).2 ∧
    (match (Seq.step l op).1 with
     | .item x => x.isSome = (Seq.cstep l.length op).1
     | .num k => k = l.length ∧ (Seq.cstep l.length op).1 = false) := by
  cases op with
  | next =>
    cases l <;> simp [Seq.step, Seq.cstep, Seq.next]
  | nextBack =>
    cases h : l.getLast? <;> simp [Seq.step, Seq.cstep, Seq.nextBack, h] <;>
      (first | (have := List.getLast?_eq_none_iff.1 h; simp [this]) | (cases l <;> simp_all))
  | nth n =>
    by_cases hn : n < l.length <;> simp [Seq.step, Seq.cstep, Seq.nth, hn] <;> omega
  | nthBack n =>
    by_cases hn : n < l.length <;> simp [Seq.step, Seq.cstep, Seq.nthBack, hn] <;> omega
  | len => simp [Seq.step, Seq.cstep]

end Toodee
