import Toodee.Spec.History
import Toodee.Spec.IterAbs
import Toodee.Proofs.HistoryLemmas
import Toodee.Proofs.OverCap
/-
  C01 — Array dimensions always agree with its contents.

  After **any** history of safe public operations on an owned array — construction, insert/remove/push/pop of rows and
  columns with any iterator script and any drain consumption (dropped or leaked), clear, swap_dimensions, capacity calls,
  `mem::take`+`into_iter`, every in-place algorithm as dispatched on `TooDee` (including indexed writes, every sort variant with
  any — possibly panicking — comparator, `copy_within`, `copy_from_toodee`), and calls rejected with a panic — in both build
  modes, for every `Vec` capacity limit and side-table limit:
  * the shape invariant holds (`data.len() = num_cols*num_rows`, both dimensions zero or neither);
  * no call ends in undefined behaviour (`hres`);
  * `rows()`, `cells()` and every `col(c)` report lengths `num_rows`, `num_cols*num_rows`, `num_rows`;
  * the array's rows-of-cells (`TD.grid`) follow the plain model `grun` driven by the same history
    (`gstep` leaves the result open only for iterator scripts that panic or lie about their length, C11).
  This is the composition of the per-operation theorems C06, C07, C11–C17.
-/
namespace Toodee
variable {α : Type}

/-- one step preserves the shape invariant -/
theorem C01_step_inv (e : HEnv) (he : e.ok) (t : TD α) (h : t.Inv) (op : HOp α) (hop : op.wf) :
    (hstep e t op).Inv :=
  hs_step_inv e he t h op hop

/-- every reachable state satisfies the shape invariant -/
theorem C01_history_inv (e : HEnv) (he : e.ok) (t : TD α) (h : t.Inv) (ops : List (HOp α)) (hops : ∀ op ∈ ops, op.wf) :
    (hrun e t ops).Inv := by
  induction ops generalizing t with
  | nil => exact h
  | cons op ops ih =>
    show (hrun e (hstep e t op) ops).Inv
    exact ih _ (C01_step_inv e he t h op (hops op (List.mem_cons_self ..)))
      (fun o ho => hops o (List.mem_cons_of_mem _ ho))

/-- … in particular starting from `default()` / `with_capacity(n)` -/
theorem C01_history_from_default (e : HEnv) (he : e.ok) (ops : List (HOp α)) (hops : ∀ op ∈ ops, op.wf) :
    (hrun e (TD.default : TD α) ops).Inv :=
  C01_history_inv e he _ C20_default.1 ops hops

/-- no safe call ends in undefined behaviour (or exhausts a fuelled loop of the model), whatever its arguments -/
theorem C01_no_ub (e : HEnv) (he : e.ok) (t : TD α) (h : t.Inv) (op : HOp α) (hop : op.wf) :
    hres e t op ≠ .error .ub ∧ hres e t op ≠ .error .fuel :=
  hs_step_res e he t h op hop

/-- … along any history -/
theorem C01_history_no_ub (e : HEnv) (he : e.ok) (t : TD α) (h : t.Inv) (ops pre : List (HOp α)) (op : HOp α)
    (hops : ∀ o ∈ ops, o.wf) (hpre : pre ++ [op] <+: ops) :
    hres e (hrun e t pre) op ≠ .error .ub ∧ hres e (hrun e t pre) op ≠ .error .fuel := by
  have hsub : ∀ o ∈ pre ++ [op], o.wf := fun o ho => hops o (hpre.subset ho)
  have hinv := C01_history_inv e he t h pre (fun o ho => hsub o (List.mem_append_left _ ho))
  exact C01_no_ub e he _ hinv op (hsub op (List.mem_append_right _ (List.mem_singleton_self op)))

/-- the lengths reported by the three iterator families agree with the dimensions -/
theorem C01_lens (m : Mode) (t : TD α) (h : t.Inv) :
    t.rows.sizeHint m = .ok t.numRows ∧
    (Flat.new t.rows).sizeHint m = .ok (t.numCols * t.numRows) ∧
    ∀ c, c < t.numCols → ∃ it, t.col m c = .ok it ∧ it.sizeHint m = .ok t.numRows := by
  refine ⟨C08_len m _ _ _ (C08_rows_owned t h).1, ?_, ?_⟩
  · obtain ⟨hwf, habs, _⟩ := C10_cells_owned t h
    rw [C10_len m _ _ _ hwf, habs, List.length_range, h.len]
  · intro c hc
    have hcw := h.cols_word
    obtain ⟨it, e, hwf, _⟩ := (C09_col_owned m t h c (by omega)).1 hc
    exact ⟨it, e, C09_len m it _ _ hwf⟩

/-- one step agrees with the rows-of-cells model wherever that model prescribes the result -/
theorem C01_step_refines (e : HEnv) (he : e.ok) (t : TD α) (h : t.Inv) (op : HOp α) (hop : op.wf) (hfit : op.fits e t)
    (g' : List (List α)) (hg : gstep t.grid op = some g') :
    (hstep e t op).grid = g' :=
  hs_step_refines e he t h op hop hfit g' hg

/-- **the array and the plain model stay in step along any history** -/
theorem C01_history_refines (e : HEnv) (he : e.ok) (t : TD α) (h : t.Inv) (ops : List (HOp α))
    (hops : ∀ op ∈ ops, op.wf) (hf : hfits e t ops) (g' : List (List α)) (hg : grun t.grid ops = some g') :
    (hrun e t ops).grid = g' := by
  induction ops generalizing t with
  | nil =>
    injection hg with hg
  | cons op ops ih =>
    have hop := hops op (List.mem_cons_self ..)
    obtain ⟨_, hfo, hfr⟩ := hf
    show (hrun e (hstep e t op) ops).grid = g'
    have hg2 : (gstep t.grid op).bind (fun g1 => grun g1 ops) = some g' := hg
    cases hs : gstep t.grid op with
    | none => rw [hs] at hg2; cases hg2
    | some g1 =>
      rw [hs] at hg2
      have h1 := C01_step_refines e he t h op hop hfo g1 hs
      refine ih (hstep e t op) (C01_step_inv e he t h op hop) (fun o ho => hops o (List.mem_cons_of_mem _ ho)) hfr ?_
      rw [h1]
      exact hg2

/-- the grid determines the array (so "same grid" is "same observable content"): dimensions and data can be read off it -/
theorem C01_grid_faithful (t : TD α) (h : t.Inv) :
    t.numRows = t.grid.length ∧ t.numCols = gcols t.grid ∧ t.data = t.grid.flatten :=
  ⟨h.grid_length.symm, (hs_headC t h).symm, h.data_eq_flatten_grid⟩

/-- **the outcome of an in-place call is the plain model's acceptance**: on an owned array a call succeeds exactly when its
    arguments are valid for the grid and the caller code inside a sort does not panic (`MOp.gok`); otherwise it panics -/
theorem C01_inplace_outcome (e : HEnv) (he : e.ok) (t : TD α) (h : t.Inv) (op : MOp α) (hop : (HOp.inplace op).wf)
    (hfit : (HOp.inplace op).fits e t) :
    (op.gok t.grid = true → hres e t (.inplace op) = .ok ()) ∧
    (op.gok t.grid = false → hres e t (.inplace op) = .error .panic ∧ hstep e t (.inplace op) = t) := by
  have _ := he
  exact hs_inplace_outcome e t h op hop hfit

/-- **a block of calls on a view that is cut short**: when the calls `pre` succeed and the next call `bad` fails, the array is
    exactly as after the block `pre` alone, whatever follows `bad` in the block -/
theorem C01_block_prefix (e : HEnv) (he : e.ok) (t : TD α) (h : t.Inv) (s w : Nat × Nat) (pre rest : List (MOp α)) (bad : MOp α)
    (hop : (HOp.viaView s w (pre ++ bad :: rest)).wf)
    (hpre : hres e t (.viaView s w pre) = .ok ())
    (hbad : hres e (hstep e t (.viaView s w pre)) (.viaView s w [bad]) ≠ .ok ()) :
    hstep e t (.viaView s w (pre ++ bad :: rest)) = hstep e t (.viaView s w pre) ∧
    hres e t (.viaView s w (pre ++ bad :: rest)) = .error .panic := by
  have _ := he
  exact hs_block_prefix e t h s w pre rest bad hop hpre hbad

/-- non-vacuity: a concrete history (insert a row into the empty array, push a column, sort by row 0 descending, remove column 0
    pulling one item from the back, leak a row drain) runs through the Impl-model and the plain model to the same grid -/
example :
    let e : HEnv := ⟨.debug, 1000, 1000⟩
    let ops : List (HOp Nat) :=
      [.insertRow 0 (honest [5, 6, 7]) [0, 0, 0], .insertRow 1 (honest [1, 2, 3]) [0, 0, 0],
       .insertCol 3 (honest [8, 4]) [0, 0], .inplace (.sortRow (sideStable fun a b => decide (b ≤ a)) 0),
       .removeCol 0 [false], .removeRowLeak 1 []]
    (hrun e TD.default ops).grid = [[7, 6, 5]] ∧ grun [] ops = some [[7, 6, 5]] ∧ hfits e TD.default ops := by
  intro e ops
  have hp : stablePerm (fun a b : Nat => decide (b ≤ a)) [5, 6, 7, 8] = [3, 2, 1, 0] := by
    simp [stablePerm, List.zipIdx, List.mergeSort, List.MergeSort.Internal.splitInTwo]
  have h3 : hstep e (hstep e (hstep e TD.default (.insertRow 0 (honest [5, 6, 7]) [0, 0, 0]))
      (.insertRow 1 (honest [1, 2, 3]) [0, 0, 0])) (.insertCol 3 (honest [8, 4]) [0, 0])
      = ⟨[5, 6, 7, 8, 1, 2, 3, 4], 2, 4⟩ := by decide
  have hinv : (⟨[5, 6, 7, 8, 1, 2, 3, 4], 2, 4⟩ : TD Nat).Inv := ⟨rfl, by decide, by decide⟩
  have hsane : (MOp.sortRow (sideStable fun a b : Nat => decide (b ≤ a)) 0).Sane :=
    fun keys => Or.inr ⟨_, rfl, stablePerm_perm _ keys⟩
  have h4 : hstep e ⟨[5, 6, 7, 8, 1, 2, 3, 4], 2, 4⟩ (.inplace (.sortRow (sideStable fun a b => decide (b ≤ a)) 0))
      = ⟨[8, 7, 6, 5, 4, 3, 2, 1], 2, 4⟩ := by
    show TD.withData _ ((Recv.root _).run e.m e.lim _ _) = _
    rw [hs_run_spec e.m e.lim _ hinv _ ⟨hsane, trivial⟩]
    have hk : readWin [5, 6, 7, 8, 1, 2, 3, 4] ((⟨[5, 6, 7, 8, 1, 2, 3, 4], 2, 4⟩ : TD Nat).asView.rowWin 0) = [5, 6, 7, 8] := rfl
    simp only [MOp.spec, sideStable, hk, hp]
    decide
  have g4 : gstep [[5, 6, 7, 8], [1, 2, 3, 4]] (.inplace (.sortRow (sideStable fun a b => decide (b ≤ a)) 0))
      = some [[8, 7, 6, 5], [4, 3, 2, 1]] := by
    have hk : ([[5, 6, 7, 8], [1, 2, 3, 4]] : List (List Nat))[0]?.getD [] = [5, 6, 7, 8] := rfl
    simp only [gstep, gstepM, sideStable, hk, hp]
    decide
  refine ⟨?_, ?_, ?_⟩
  · simp only [ops, hrun, List.foldl_cons, List.foldl_nil]
    rw [h3, h4]
    decide
  · have g1 : gstep ([] : List (List Nat)) (.insertRow 0 (honest [5, 6, 7]) [0, 0, 0]) = some [[5, 6, 7]] := by decide
    have g2 : gstep [[5, 6, 7]] (.insertRow 1 (honest [1, 2, 3]) [0, 0, 0]) = some [[5, 6, 7], [1, 2, 3]] := by decide
    have g3 : gstep [[5, 6, 7], [1, 2, 3]] (.insertCol 3 (honest [8, 4]) [0, 0]) = some [[5, 6, 7, 8], [1, 2, 3, 4]] := by
      decide
    have g5 : gstep [[8, 7, 6, 5], [4, 3, 2, 1]] (.removeCol 0 [false]) = some [[7, 6, 5], [3, 2, 1]] := by decide
    have g6 : gstep [[7, 6, 5], [3, 2, 1]] (.removeRowLeak 1 []) = some [[7, 6, 5]] := by decide
    simp only [ops, grun, g1, g2, g3, g4, g5, g6, Option.bind_some]
  · have h1 : hstep e TD.default (.insertRow 0 (honest [5, 6, 7]) [0, 0, 0]) = ⟨[5, 6, 7], 1, 3⟩ := by decide
    have h2 : hstep e ⟨[5, 6, 7], 1, 3⟩ (.insertRow 1 (honest [1, 2, 3]) [0, 0, 0]) = ⟨[5, 6, 7, 1, 2, 3], 2, 3⟩ := by decide
    have h3' : hstep e ⟨[5, 6, 7, 1, 2, 3], 2, 3⟩ (.insertCol 3 (honest [8, 4]) [0, 0]) = ⟨[5, 6, 7, 8, 1, 2, 3, 4], 2, 4⟩ := by
      decide
    simp only [ops, hfits, HOp.spareOk, HOp.fits, h1, h2, h3']
    decide

/-- non-vacuity for blocks of calls on a view inside a history: on the window (1,1)-(3,3) of a 4x3 array write a cell, then
    exchange the window's two rows; only the window changes -/
example :
    let e : HEnv := ⟨.release, 1000, 1000⟩
    let ops : List (HOp Nat) := [.viaView (1, 1) (3, 3) [.set 0 0 99, .swapRows 0 1]]
    (hrun e ⟨[1, 2, 3, 4, 5, 6, 7, 8, 9, 10, 11, 12], 3, 4⟩ ops).grid = [[1, 2, 3, 4], [5, 10, 11, 8], [9, 99, 7, 12]] ∧
    grun [[1, 2, 3, 4], [5, 6, 7, 8], [9, 10, 11, 12]] ops = some [[1, 2, 3, 4], [5, 10, 11, 8], [9, 99, 7, 12]] ∧
    hflowRun e ⟨[1, 2, 3, 4, 5, 6, 7, 8, 9, 10, 11, 12], 3, 4⟩ ops = ⟨[99], [], [6], []⟩ := by
  intro e ops
  have h1 : hstep e ⟨[1, 2, 3, 4, 5, 6, 7, 8, 9, 10, 11, 12], 3, 4⟩ (.viaView (1, 1) (3, 3) [.set 0 0 99, .swapRows 0 1])
      = ⟨[1, 2, 3, 4, 5, 10, 11, 8, 9, 99, 7, 12], 3, 4⟩ := by rfl
  refine ⟨?_, ?_, ?_⟩
  · simp only [ops, hrun, List.foldl_cons, List.foldl_nil]
    rw [h1]
    decide
  · decide
  · rfl

/-- **what the refinement's side condition leaves out, stated outright.**  `HOp.fits` removes from `C01_history_refines` the requests
    the plain model cannot express: more cells than a `Vec<T>` holds (`insert_*`, `push_*`, `new`, `init`, `reserve`) and a sorted
    line longer than a side table.  Each of them is rejected with a panic and leaves the array as it was — in both modes, for
    every limit. -/
theorem C01_over_capacity_rejected (e : HEnv) (t : TD α) (h : t.Inv) (op : HOp α) (hw : op.wf) (ho : op.overCap e t) :
    hres e t op = .error .panic ∧ hstep e t op = t :=
  over_capacity_rejected e t h op hw ho

/-- … and there is nothing in between: a well-formed operation that is not a block of calls on a view either meets the side
    condition of the refinement or is one of those requests -/
theorem C01_fits_or_over_capacity (e : HEnv) (t : TD α) (op : HOp α) (hw : op.wf)
    (hv : ∀ s e' ops, op ≠ .viaView s e' ops) : op.fits e t ∨ op.overCap e t := by
  cases op with
  | insertRow i it sp => exact Nat.lt_or_ge _ _ |>.symm
  | insertCol i it sp => exact Nat.lt_or_ge _ _ |>.symm
  | newArr c r d => exact Nat.lt_or_ge _ _ |>.symm
  | initArr c r v => exact Nat.lt_or_ge _ _ |>.symm
  | capacityCall k =>
    cases k with
    | none => exact .inl trivial
    | some k => exact Nat.lt_or_ge _ _ |>.symm
  | inplace mop =>
    cases mop with
    | sortRow side k => exact Nat.lt_or_ge _ _ |>.symm
    | sortCol side k => exact Nat.lt_or_ge _ _ |>.symm
    | _ => exact .inl hw.2
  | viaView s e' ops => exact absurd rfl (hv s e' ops)
  | _ => exact .inl trivial

/-- non-vacuity: `reserve(usize::MAX)` on a 1x1 array of 4-byte cells, and a sort of a row longer than the side table -/
example : (HOp.capacityCall (some (WORD - 1)) : HOp Nat).overCap ⟨.release, 2305843009213693951, 100⟩ ⟨[7], 1, 1⟩ := by
  simp [HOp.overCap, WORD]

end Toodee
