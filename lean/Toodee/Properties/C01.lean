import Toodee.Spec.History
import Toodee.Spec.IterAbs
import Toodee.Proofs.HistoryLemmas
/-
  C01 — Array dimensions always agree with its contents.

  After **any** history of safe public operations on an owned array — construction, insert/remove/push/pop of rows and
  columns with any iterator script and any drain consumption (dropped or leaked), clear, swap_dimensions, capacity calls,
  `mem::take`+`into_iter`, every in-place algorithm as dispatched on `TooDee` (including indexed writes, every sort variant with
  any — possibly panicking — comparator, `copy_within`, `copy_from_toodee`), and calls rejected with a panic — in both build
  modes, for every `Vec` capacity limit and side-table limit:
  * the shape invariant holds (`data.len() = num_cols*num_rows`, both dimensions zero or neither);
  * no call ends in undefined behaviour (`hres`);
  * `rows()`, `cells()` and every `col(c)` report lengths `num_rows`, `num_cols*num_rows`, `num_rows`;
  * the array's rows-of-cells (`TD.grid`) follow the plain model `grun` driven by the same history
    (`gstep` leaves the result open only for iterator scripts that panic or lie about their length, C11).
  This is the composition of the per-operation theorems C06, C07, C11–C17.
-/
namespace Toodee
variable {α : Type}

/-- one step preserves the shape invariant -/
theorem C01_step_inv (e : HEnv) (he : e.ok) (t : TD α) (h : t.Inv) (op : HOp α) (hop : op.wf) :
    (hstep e t op).Inv := by
  sorry

/-- every reachable state satisfies the shape invariant -/
theorem C01_history_inv (e : HEnv) (he : e.ok) (t : TD α) (h : t.Inv) (ops : List (HOp α)) (hops : ∀ op ∈ ops, op.wf) :
    (hrun e t ops).Inv := by
  sorry

/-- … in particular starting from `default()` / `with_capacity(n)` -/
theorem C01_history_from_default (e : HEnv) (he : e.ok) (ops : List (HOp α)) (hops : ∀ op ∈ ops, op.wf) :
    (hrun e (TD.default : TD α) ops).Inv := by
  sorry

/-- no safe call ends in undefined behaviour (or exhausts a fuelled loop of the model), whatever its arguments -/
theorem C01_no_ub (e : HEnv) (he : e.ok) (t : TD α) (h : t.Inv) (op : HOp α) (hop : op.wf) :
    hres e t op ≠ .error .ub ∧ hres e t op ≠ .error .fuel := by
  sorry

/-- … along any history -/
theorem C01_history_no_ub (e : HEnv) (he : e.ok) (t : TD α) (h : t.Inv) (ops pre : List (HOp α)) (op : HOp α)
    (hops : ∀ o ∈ ops, o.wf) (hpre : pre ++ [op] <+: ops) :
    hres e (hrun e t pre) op ≠ .error .ub ∧ hres e (hrun e t pre) op ≠ .error .fuel := by
  sorry

/-- the lengths reported by the three iterator families agree with the dimensions -/
theorem C01_lens (m : Mode) (t : TD α) (h : t.Inv) :
    t.rows.sizeHint m = .ok t.numRows ∧
    (Flat.new t.rows).sizeHint m = .ok (t.numCols * t.numRows) ∧
    ∀ c, c < t.numCols → ∃ it, t.col m c = .ok it ∧ it.sizeHint m = .ok t.numRows := by
  sorry

/-- one step agrees with the rows-of-cells model wherever that model prescribes the result -/
theorem C01_step_refines (e : HEnv) (he : e.ok) (t : TD α) (h : t.Inv) (op : HOp α) (hop : op.wf) (hfit : op.fits e t)
    (g' : List (List α)) (hg : gstep t.grid op = some g') :
    (hstep e t op).grid = g' := by
  sorry

/-- **the array and the plain model stay in step along any history** -/
theorem C01_history_refines (e : HEnv) (he : e.ok) (t : TD α) (h : t.Inv) (ops : List (HOp α))
    (hops : ∀ op ∈ ops, op.wf) (hf : hfits e t ops) (g' : List (List α)) (hg : grun t.grid ops = some g') :
    (hrun e t ops).grid = g' := by
  sorry

/-- the grid determines the array (so "same grid" is "same observable content"): dimensions and data can be read off it -/
theorem C01_grid_faithful (t : TD α) (h : t.Inv) :
    t.numRows = t.grid.length ∧ t.numCols = gcols t.grid ∧ t.data = t.grid.flatten := by
  sorry

/-- non-vacuity: a concrete history (insert a row into the empty array, push a column, sort by row 0 descending, remove column 0
    pulling one item from the back, leak a row drain) runs through the Impl-model and the plain model to the same grid -/
example :
    let e : HEnv := ⟨.debug, 1000, 1000⟩
    let ops : List (HOp Nat) :=
      [.insertRow 0 (honest [5, 6, 7]) [0, 0, 0], .insertRow 1 (honest [1, 2, 3]) [0, 0, 0],
       .insertCol 3 (honest [8, 4]) [0, 0], .inplace (.sortRow (sideStable fun a b => decide (b ≤ a)) 0),
       .removeCol 0 [false], .removeRowLeak 1 []]
    (hrun e TD.default ops).grid = [[7, 6, 5]] ∧ grun [] ops = some [[7, 6, 5]] ∧ hfits e TD.default ops := by
  sorry

end Toodee
