import Toodee.Spec.Inv
namespace Toodee
end Toodee
