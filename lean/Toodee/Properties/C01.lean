import Toodee.Spec.History
import Toodee.Spec.IterAbs
import Toodee.Proofs.HistoryLemmas
/-
  C01 — Array dimensions always agree with its contents.

  After **any** history of safe public operations on an owned array — construction, insert/remove/push/pop of rows and
  columns with any iterator script and any drain consumption, clear, swap_dimensions, capacity calls, the in-place algorithms,
  and calls rejected with a panic — in both build modes:
  * the shape invariant holds (`data.len() = num_cols*num_rows`, both dimensions zero or neither);
  * `rows()`, `cells()` and every `col(c)` report lengths `num_rows`, `num_cols*num_rows`, `num_rows`;
  * for every operation the array's rows-of-cells (`TD.grid`) are those of the plain model `gstep` driven by the same operation
    (`gstep` leaves the result open only for iterator scripts that panic or lie about their length, C11).
  This is the composition of the per-operation theorems C06, C07, C11, C13–C17.
-/
namespace Toodee
variable {α : Type}

/-- one step preserves the shape invariant -/
theorem C01_step_inv (m : Mode) (t : TD α) (h : t.Inv) (op : HOp α) (hop : op.spareOk) :
    (hstep m t op).Inv := by
  cases op with
  | fromVec c r v => exact hs_inv_fromVec t h c r v
  | insertRow i it spare => exact hs_inv_insertRow m t h i it spare hop
  | insertCol i it spare => exact hs_inv_insertCol m t h i it spare hop
  | removeRow i => exact hs_inv_removeRow m t h i
  | removeCol i => exact hs_inv_removeCol m t h i
  | popRow =>
    rw [hs_popRow m t h]
    split
    · exact h
    · exact hs_inv_removeRow m t h _
  | popCol =>
    rw [hs_popCol m t h]
    split
    · exact h
    · exact hs_inv_removeCol m t h _
  | clear => exact hs_inv_clear t
  | swapDimensions => exact hs_inv_swapDimensions t h
  | capacityCall => exact h
  | fill x => exact hs_inv_fill t h x
  | swap c1 r1 c2 r2 => exact hs_inv_swap m t h c1 r1 c2 r2
  | swapRows r1 r2 => exact hs_inv_swapRows m t h r1 r2
  | swapCols c1 c2 => exact hs_inv_swapCols t h c1 c2
  | copyFromSlice src => exact hs_inv_copyFromSlice t h src
  | translate mc mr => exact hs_inv_translate m t h mc mr
  | flipRows => exact hs_inv_flipRows m t h
  | flipCols => exact hs_inv_flipCols t h
  | sortByRow le row => exact hs_inv_sortByRow m t h le row
  | sortByCol le col => exact hs_inv_sortByCol m t h le col

/-- every reachable array satisfies the shape invariant -/
theorem C01_history_inv (m : Mode) (t : TD α) (h : t.Inv) (ops : List (HOp α)) (hops : ∀ op ∈ ops, op.spareOk) :
    (hrun m t ops).Inv := by
  induction ops generalizing t with
  | nil => exact h
  | cons op ops ih =>
    show (hrun m (hstep m t op) ops).Inv
    exact ih _ (C01_step_inv m t h op (hops op (List.mem_cons_self ..)))
      (fun o ho => hops o (List.mem_cons_of_mem _ ho))

/-- … in particular starting from `default()` / `with_capacity(n)` -/
theorem C01_history_from_default (m : Mode) (ops : List (HOp α)) (hops : ∀ op ∈ ops, op.spareOk) :
    (hrun m (TD.default : TD α) ops).Inv :=
  C01_history_inv m _ C20_default.1 ops hops

/-- the lengths reported by the three iterator families agree with the dimensions -/
theorem C01_lens (m : Mode) (t : TD α) (h : t.Inv) :
    t.rows.sizeHint m = .ok t.numRows ∧
    (Flat.new t.rows).sizeHint m = .ok (t.numCols * t.numRows) ∧
    ∀ c, c < t.numCols → ∃ it, t.col m c = .ok it ∧ it.sizeHint m = .ok t.numRows := by
  refine ⟨C08_len m _ _ _ (C08_rows_owned t h).1, ?_, ?_⟩
  · obtain ⟨hwf, habs, _⟩ := C10_cells_owned t h
    rw [C10_len m _ _ _ hwf, habs, List.length_range, h.len]
  · intro c hc
    have hcw := h.cols_word
    obtain ⟨it, e, hwf, _⟩ := (C09_col_owned m t h c (by omega)).1 hc
    exact ⟨it, e, C09_len m it _ _ hwf⟩

/-- one step agrees with the rows-of-cells model wherever that model prescribes the result -/
theorem C01_step_refines (m : Mode) (t : TD α) (h : t.Inv) (op : HOp α) (hop : op.spareOk) (hfit : op.fits t.data.length)
    (g' : List (List α)) (hg : gstep t.grid op = some g') :
    (hstep m t op).grid = g' := by
  have fin : ∀ x : List (List α), gstep t.grid op = some x → x = g' := fun x hx => by
    rw [hx] at hg
    exact Option.some.inj hg
  cases op with
  | insertRow i it spare => exact hs_ref_insertRow m t h i it spare hop hfit g' hg
  | insertCol i it spare => exact hs_ref_insertCol m t h i it spare hop hfit g' hg
  | removeRow i => exact fin _ (hs_ref_removeRow m t h i)
  | removeCol i => exact fin _ (hs_ref_removeCol m t h i)
  | popRow => exact fin _ (hs_ref_popRow m t h)
  | popCol => exact fin _ (hs_ref_popCol m t h)
  | clear => exact fin _ (hs_ref_clear m t)
  | capacityCall => exact fin _ rfl
  | fill x => exact fin _ (hs_ref_fill m t h x)
  | swapRows r1 r2 => exact fin _ (hs_ref_swapRows m t h r1 r2)
  | swapCols c1 c2 => exact fin _ (hs_ref_swapCols m t h c1 c2)
  | flipRows => exact fin _ (hs_ref_flipRows m t h)
  | flipCols => exact fin _ (hs_ref_flipCols m t h)
  | fromVec c r v => exact fin _ (hs_ref_fromVec m t c r v)
  | swapDimensions => exact fin _ (hs_ref_swapDimensions m t h)
  | swap c1 r1 c2 r2 => exact fin _ (hs_ref_swap m t h c1 r1 c2 r2)
  | copyFromSlice src => exact fin _ (hs_ref_copyFromSlice m t h src)
  | translate mc mr => exact fin _ (hs_ref_translate m t h mc mr)
  | sortByRow le row => exact fin _ (hs_ref_sortByRow m t h le row)
  | sortByCol le col => exact fin _ (hs_ref_sortByCol m t h le col)

end Toodee
