import Toodee.Impl.Serde
import Toodee.Spec.Inv
import Toodee.Proofs.SerdeLemmas
import Toodee.Properties.C10
import Toodee.Properties.C20
import Toodee.Proofs.ConvLemmas
/-
  C18 — Serialisation round-trips every array.

  Over the abstract document model (`serde`/`serde_json` tokenisation assumed; the four transports present the same value
  tree to the visitor): for every owned array with the shape invariant and every element codec that round-trips,
  deserialising the serialised array gives back exactly that array; serialising a view (dimensions + its cells in row-major
  order) and deserialising gives the owned copy of the view.
-/
namespace Toodee
variable {α : Type}

theorem C18_roundtrip_owned (enc : α → JVal) (dec : JVal → Option α) (hcodec : ∀ x, dec (enc x) = some x)
    (t : TD α) (h : t.Inv) :
    deserialize dec (serializeOwned enc t) = .ok t := by
  obtain ⟨data, nr, nc⟩ := t
  obtain ⟨hlen, hz, hword⟩ := h
  simp only at hlen hz hword
  have hw : nc * nr < WORD := by rw [← hlen]; exact hword
  obtain ⟨hc, hr⟩ := dims_lt_word hz hw
  have hv : visitLoop dec [("data", JVal.arr (data.map enc)), ("num_rows", JVal.num nr), ("num_cols", JVal.num nc)]
      none none none = some (some nc, some nr, some data) := by
    simp [visitLoop, decVec_arr_enc enc dec hcodec, decUsize_num hc, decUsize_num hr]
  unfold serializeOwned
  rw [deserialize_of_visit dec _ nc nr data hv, if_pos ⟨hw, hlen.symm, hz⟩]

/-- a view with `C x R` cells (`cells` = its cells in row-major order, `C = 0 ↔ R = 0`) round-trips to the owned copy -/
theorem C18_roundtrip_view (enc : α → JVal) (dec : JVal → Option α) (hcodec : ∀ x, dec (enc x) = some x)
    (C R : Nat) (cells : List α) (hlen : cells.length = C * R) (hz : C = 0 ↔ R = 0) (hw : C * R < WORD) :
    deserialize dec (serializeView enc C R cells) = .ok ⟨cells, R, C⟩ := by
  obtain ⟨hc, hr⟩ := dims_lt_word hz hw
  have hv : visitLoop dec [("num_cols", JVal.num C), ("num_rows", JVal.num R), ("data", JVal.arr (cells.map enc))]
      none none none = some (some C, some R, some cells) := by
    simp [visitLoop, decVec_arr_enc enc dec hcodec, decUsize_num hc, decUsize_num hr]
  unfold serializeView
  rw [deserialize_of_visit dec _ C R cells hv, if_pos ⟨hw, hlen.symm, hz⟩]

/-- **serialising a view as the crate does it** (`VW.serialize`: dimensions, then the `cells()` cursor collected) **and
    deserialising gives the owned copy of that view** (`TooDee::from(view)`, `VW.toOwned`, characterised cell by cell in
    C20_from_view) — for every window of every buffer, in both modes -/
theorem C18_roundtrip_view_cells (m : Mode) (cap : Nat) (enc : α → JVal) (dec : JVal → Option α) (hcodec : ∀ x, dec (enc x) = some x)
    (v : VW) (buf : List α) (h : v.Inv buf.length) (hcap : buf.length ≤ cap) :
    ∃ doc t, v.serialize m enc buf = .ok doc ∧ v.toOwned m cap buf = .ok t ∧ deserialize dec doc = .ok t := by
  obtain ⟨it, hrows, _, hitv, _, _, _⟩ := VW.rows_WF m v buf.length h
  obtain ⟨it', hrows', hWF, habs, _, _⟩ := C10_cells_view m v buf.length h
  rw [hrows] at hrows'
  cases hrows'
  obtain ⟨t, hown, hinv, hC, hR, hdata, _⟩ := C20_from_view m cap v buf h hcap
  have harea := h.area_le
  -- enough fuel: there are at most `len` rows
  have hfuel : v.numRows < it.v.len + 3 := by
    rw [hitv]
    by_cases hR0 : v.numRows = 0
    · omega
    · have hC0 : 0 < v.numCols := by have := h.zero; omega
      have : 1 * v.numRows ≤ v.numCols * v.numRows := Nat.mul_le_mul_right _ hC0
      omega
  have hcol := C10_fold (Flat.new it) v.numRows buf.length hWF (it.v.len + 3) hfuel
  rw [habs] at hcol
  have hcells : ((((List.range v.numRows).map fun r => (List.range v.numCols).map fun c => v.pos c r).flatten).filterMap
      fun p => buf[p]?) = t.data := by
    rw [hdata]; exact filterMap_cells_flatten buf v.numRows v.numCols v.pos
  refine ⟨serializeView enc v.numCols v.numRows t.data, t, ?_, hown, ?_⟩
  · simp only [VW.serialize, hrows, ok_bind, hcol, hcells, pure_eq]
  · have hlen : t.data.length = v.numCols * v.numRows := by rw [hinv.len, hC, hR]
    have hw : v.numCols * v.numRows < WORD := by rw [← hlen]; exact hinv.word
    rw [C18_roundtrip_view enc dec hcodec v.numCols v.numRows t.data hlen h.zero hw, ← hC, ← hR]

/-- the element codec used by the non-vacuity examples: natural-number literals -/
private def encNat : Nat → JVal := JVal.num
private def decNat : JVal → Option Nat
  | .num n => some n
  | _ => none

/-- non-vacuity: a 2x2 owned array has the invariant and round-trips (as a concrete computation and via the theorem) -/
example : deserialize decNat (serializeOwned encNat ⟨[1, 2, 3, 4], 2, 2⟩) = .ok ⟨[1, 2, 3, 4], 2, 2⟩ := by
  simp [serializeOwned, encNat, decNat, deserialize, visitLoop, decUsize, decVec, omul, TD.fromVec, TD.zeroRuleOk,
    cmul, WORD]
example : deserialize decNat (serializeOwned encNat ⟨[1, 2, 3, 4], 2, 2⟩) = .ok ⟨[1, 2, 3, 4], 2, 2⟩ :=
  C18_roundtrip_owned encNat decNat (fun _ => rfl) _ ⟨rfl, by decide, by decide⟩
/-- non-vacuity: a 3-column, 2-row view and the empty view round-trip to their owned copies -/
example : deserialize decNat (serializeView encNat 3 2 [1, 2, 3, 4, 5, 6]) = .ok ⟨[1, 2, 3, 4, 5, 6], 2, 3⟩ :=
  C18_roundtrip_view encNat decNat (fun _ => rfl) 3 2 _ rfl (by decide) (by decide)
example : deserialize decNat (serializeView encNat 0 0 []) = .ok ⟨[], 0, 0⟩ := by
  simp [serializeView, deserialize, visitLoop, decUsize, decVec, omul, TD.fromVec, TD.zeroRuleOk,
    cmul, WORD]
/-- non-vacuity: serialising a 2x2 window (stride 3, offset 1) of an 8-cell buffer as the crate does it (concrete
    computation), and `C18_roundtrip_view_cells` applied to it -/
example : VW.serialize .debug encNat ⟨⟨1, 5⟩, 2, 2, 3⟩ [0, 1, 2, 3, 4, 5, 6, 7] =
    .ok (serializeView encNat 2 2 [1, 2, 4, 5]) := by rfl
example : ∃ doc t, VW.serialize .release encNat ⟨⟨1, 5⟩, 2, 2, 3⟩ [0, 1, 2, 3, 4, 5, 6, 7] = .ok doc ∧
    VW.toOwned .release 100 ⟨⟨1, 5⟩, 2, 2, 3⟩ [0, 1, 2, 3, 4, 5, 6, 7] = .ok t ∧ deserialize decNat doc = .ok t :=
  C18_roundtrip_view_cells .release 100 encNat decNat (fun _ => rfl) ⟨⟨1, 5⟩, 2, 2, 3⟩ [0, 1, 2, 3, 4, 5, 6, 7]
    ⟨by decide, by decide, by decide, by decide, by decide, by decide⟩ (by decide)

end Toodee
