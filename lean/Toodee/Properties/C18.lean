import Toodee.Impl.Serde
import Toodee.Spec.Inv
import Toodee.Proofs.SerdeLemmas
import Toodee.Properties.C10
import Toodee.Properties.C20
/-
  C18 — Serialisation round-trips every array.

  Over the abstract document model (`serde`/`serde_json` tokenisation assumed; the four transports present the same value
  tree to the visitor): for every owned array with the shape invariant and every element codec that round-trips,
  deserialising the serialised array gives back exactly that array; serialising a view (dimensions + its cells in row-major
  order) and deserialising gives the owned copy of the view.
-/
namespace Toodee
variable {α : Type}

theorem C18_roundtrip_owned (enc : α → JVal) (dec : JVal → Option α) (hcodec : ∀ x, dec (enc x) = some x)
    (t : TD α) (h : t.Inv) :
    deserialize dec (serializeOwned enc t) = .ok t := by
  obtain ⟨data, nr, nc⟩ := t
  obtain ⟨hlen, hz, hword⟩ := h
  simp only at hlen hz hword
  have hw : nc * nr < WORD := by rw [← hlen]; exact hword
  obtain ⟨hc, hr⟩ := dims_lt_word hz hw
  have hv : visitLoop dec [("data", JVal.arr (data.map enc)), ("num_rows", JVal.num nr), ("num_cols", JVal.num nc)]
      none none none = some (some nc, some nr, some data) := by
    simp [visitLoop, decVec_arr_enc enc dec hcodec, decUsize_num hc, decUsize_num hr]
  unfold serializeOwned
  rw [deserialize_of_visit dec _ nc nr data hv, if_pos ⟨hw, hlen.symm, hz⟩]

/-- a view with `C x R` cells (`cells` = its cells in row-major order, `C = 0 ↔ R = 0`) round-trips to the owned copy -/
theorem C18_roundtrip_view (enc : α → JVal) (dec : JVal → Option α) (hcodec : ∀ x, dec (enc x) = some x)
    (C R : Nat) (cells : List α) (hlen : cells.length = C * R) (hz : C = 0 ↔ R = 0) (hw : C * R < WORD) :
    deserialize dec (serializeView enc C R cells) = .ok ⟨cells, R, C⟩ := by
  obtain ⟨hc, hr⟩ := dims_lt_word hz hw
  have hv : visitLoop dec [("num_cols", JVal.num C), ("num_rows", JVal.num R), ("data", JVal.arr (cells.map enc))]
      none none none = some (some C, some R, some cells) := by
    simp [visitLoop, decVec_arr_enc enc dec hcodec, decUsize_num hc, decUsize_num hr]
  unfold serializeView
  rw [deserialize_of_visit dec _ C R cells hv, if_pos ⟨hw, hlen.symm, hz⟩]

/-- **serialising a view as the crate does it** (`VW.serialize`: dimensions, then the `cells()` cursor collected) **and
    deserialising gives the owned copy of that view** (`TooDee::from(view)`, `VW.toOwned`, characterised cell by cell in
    C20_from_view) — for every window of every buffer, in both modes -/
theorem C18_roundtrip_view_cells (m : Mode) (cap : Nat) (enc : α → JVal) (dec : JVal → Option α) (hcodec : ∀ x, dec (enc x) = some x)
    (v : VW) (buf : List α) (h : v.Inv buf.length) (hcap : buf.length ≤ cap) :
    ∃ doc t, v.serialize m enc buf = .ok doc ∧ v.toOwned m cap buf = .ok t ∧ deserialize dec doc = .ok t := by
  sorry

/-- the element codec used by the non-vacuity examples: natural-number literals -/
private def encNat : Nat → JVal := JVal.num
private def decNat : JVal → Option Nat
  | .num n => some n
  | _ => none

/-- non-vacuity: a 2x2 owned array has the invariant and round-trips (as a concrete computation and via the theorem) -/
example : deserialize decNat (serializeOwned encNat ⟨[1, 2, 3, 4], 2, 2⟩) = .ok ⟨[1, 2, 3, 4], 2, 2⟩ := by
  simp [serializeOwned, encNat, decNat, deserialize, visitLoop, decUsize, decVec, omul, TD.fromVec, TD.zeroRuleOk,
    cmul, WORD]
example : deserialize decNat (serializeOwned encNat ⟨[1, 2, 3, 4], 2, 2⟩) = .ok ⟨[1, 2, 3, 4], 2, 2⟩ :=
  C18_roundtrip_owned encNat decNat (fun _ => rfl) _ ⟨rfl, by decide, by decide⟩
/-- non-vacuity: a 3-column, 2-row view and the empty view round-trip to their owned copies -/
example : deserialize decNat (serializeView encNat 3 2 [1, 2, 3, 4, 5, 6]) = .ok ⟨[1, 2, 3, 4, 5, 6], 2, 3⟩ :=
  C18_roundtrip_view encNat decNat (fun _ => rfl) 3 2 _ rfl (by decide) (by decide)
example : deserialize decNat (serializeView encNat 0 0 []) = .ok ⟨[], 0, 0⟩ := by
  simp [serializeView, deserialize, visitLoop, decUsize, decVec, omul, TD.fromVec, TD.zeroRuleOk,
    cmul, WORD]

end Toodee
