import Toodee.Impl.Serde
import Toodee.Spec.Inv
import Toodee.Proofs.SerdeLemmas
import Toodee.Proofs.SerdeExact
/-
  C19 — Deserialisation accepts only consistent documents and never panics.

  For **every** document: the outcome is an error, or an array that satisfies the shape invariant and whose dimensions and
  cells are stated in the document (the `num_cols` / `num_rows` entries and one of the `data` entries — a repeated `data` key
  overwrites; `C19_exact`: it is the last one, the dimensions are stated exactly once and there is no other key); it is never a panic.  Documents whose dimensions overflow, disagree with the data length, or have exactly one
  zero dimension are rejected.
-/
namespace Toodee
variable {α : Type}

theorem C19_never_panics (dec : JVal → Option α) (doc : JVal) : ∀ t, deserialize dec doc ≠ .panic ∧
    (deserialize dec doc = .ok t →
      t.Inv ∧
      ∃ kvs, doc = .obj kvs ∧
        ("num_cols", JVal.num t.numCols) ∈ kvs ∧ ("num_rows", JVal.num t.numRows) ∈ kvs ∧
        ∃ v, ("data", v) ∈ kvs ∧ decVec dec v = some t.data) := by
  intro t
  -- every outcome is `.err`, or the loop delivered three values and the post-loop checks decide
  have key : deserialize dec doc = .err ∨ ∃ kvs nc nr data, doc = .obj kvs ∧
      visitLoop dec kvs none none none = some (some nc, some nr, some data) := by
    cases doc with
    | num n => exact .inl rfl
    | arr xs => exact .inl rfl
    | other => exact .inl rfl
    | obj kvs =>
      by_cases hex : ∃ nc nr data, visitLoop dec kvs none none none = some (some nc, some nr, some data)
      · obtain ⟨nc, nr, data, hv⟩ := hex
        exact .inr ⟨kvs, nc, nr, data, rfl, hv⟩
      · exact .inl (deserialize_of_visit_incomplete dec kvs (fun nc nr data hv => hex ⟨nc, nr, data, hv⟩))
  rcases key with herr | ⟨kvs, nc, nr, data, rfl, hv⟩
  · rw [herr]
    exact ⟨fun h => (by cases h), fun h => (by cases h)⟩
  · rw [deserialize_of_visit dec kvs nc nr data hv]
    by_cases hc : nc * nr < WORD ∧ nc * nr = data.length ∧ (nc = 0 ↔ nr = 0)
    · rw [if_pos hc]
      refine ⟨fun h => (by cases h), fun h => ?_⟩
      cases h
      obtain ⟨hw, hl, hz⟩ := hc
      obtain ⟨m1, m2, v, m3, hd⟩ := visitLoop_sound_init dec kvs nc nr data hv
      exact ⟨⟨hl.symm, hz, by show data.length < WORD; rw [← hl]; exact hw⟩, kvs, rfl, m1, m2, v, m3, hd⟩
    · rw [if_neg hc]
      exact ⟨fun h => (by cases h), fun h => (by cases h)⟩

/-- the three kinds of inconsistent document are rejected: whenever the visitor gets as far as the three values -/
theorem C19_rejects (dec : JVal → Option α) (kvs : List (String × JVal)) (nc nr : Nat) (data : List α)
    (hv : visitLoop dec kvs none none none = some (some nc, some nr, some data))
    (hbad : WORD ≤ nc * nr ∨ nc * nr ≠ data.length ∨ ¬ (nc = 0 ↔ nr = 0)) :
    deserialize dec (.obj kvs) = .err := by
  rw [deserialize_of_visit dec kvs nc nr data hv, if_neg]
  rintro ⟨hw, hl, hz⟩
  rcases hbad with h | h | h
  · omega
  · exact h hl
  · exact h hz

/-- the converse direction: **every well-formed document is accepted**, whatever the order of its three entries — the dimensions
    as number literals below 2^64 satisfying the zero rule, a `data` array whose elements decode, product = number of elements -/
theorem C19_accepts (dec : JVal → Option α) (kvs : List (String × JVal)) (nc nr : Nat) (v : JVal) (data : List α)
    (hk : kvs.Perm [("num_cols", JVal.num nc), ("num_rows", JVal.num nr), ("data", v)])
    (hd : decVec dec v = some data) (hlen : nc * nr = data.length) (hw : nc * nr < WORD) (hz : nc = 0 ↔ nr = 0) :
    deserialize dec (.obj kvs) = .ok ⟨data, nr, nc⟩ := by
  obtain ⟨hc, hr⟩ := dims_lt_word hz hw
  rw [deserialize_of_visit dec kvs nc nr data (visitLoop_of_perm dec kvs nc nr v data hk hd hc hr),
    if_pos ⟨hw, hlen, hz⟩]

/-- **an accepted document, exactly**: it has only the three known keys, states each dimension once (the array's), and the
    **last** `data` entry is the array's cells — "dimensions and cells are exactly those stated in the document" with the one
    liberty the visitor takes (a repeated `data` key overwrites) pinned down -/
theorem C19_exact (dec : JVal → Option α) (kvs : List (String × JVal)) (t : TD α)
    (h : deserialize dec (.obj kvs) = .ok t) :
    (∀ kv ∈ kvs, kv.1 = "num_cols" ∨ kv.1 = "num_rows" ∨ kv.1 = "data") ∧
    kvs.filter (fun kv => kv.1 == "num_cols") = [("num_cols", JVal.num t.numCols)] ∧
    kvs.filter (fun kv => kv.1 == "num_rows") = [("num_rows", JVal.num t.numRows)] ∧
    ∃ v, (kvs.filter (fun kv => kv.1 == "data")).getLast? = some ("data", v) ∧ decVec dec v = some t.data :=
  deserialize_exact dec kvs t h

/-- the element codec used by the non-vacuity examples: natural-number literals -/
private def decNat : JVal → Option Nat
  | .num n => some n
  | _ => none

/-- non-vacuity: an accepted document (so the `.ok` branch of `C19_never_panics` is inhabited) -/
example : deserialize decNat (.obj [("num_cols", .num 1), ("num_rows", .num 2), ("data", .arr [.num 5, .num 6])])
    = .ok ⟨[5, 6], 2, 1⟩ := by
  simp [deserialize, visitLoop, decUsize, decVec, decNat, omul, TD.fromVec, TD.zeroRuleOk, cmul, WORD]
/-- non-vacuity: a repeated `data` key overwrites, keys may come in any order -/
example : deserialize decNat (.obj [("data", .arr [.num 9]), ("num_rows", .num 1), ("data", .arr [.num 7, .num 8]),
    ("num_cols", .num 2)]) = .ok ⟨[7, 8], 1, 2⟩ := by
  simp [deserialize, visitLoop, decUsize, decVec, decNat, omul, TD.fromVec, TD.zeroRuleOk, cmul, WORD]
/-- non-vacuity: exactly one zero dimension, a length mismatch, an overflowing product, a repeated dimension key,
    an unknown key and a non-object are all rejected -/
example : deserialize decNat (.obj [("num_cols", .num 0), ("num_rows", .num 5), ("data", .arr [])]) = .err := by
  simp [deserialize, visitLoop, decUsize, decVec, omul, WORD]
example : deserialize decNat (.obj [("num_cols", .num 2), ("num_rows", .num 2), ("data", .arr [.num 1])]) = .err := by
  simp [deserialize, visitLoop, decUsize, decVec, decNat, omul, WORD]
example : deserialize decNat (.obj [("num_cols", .num 4294967296), ("num_rows", .num 4294967296), ("data", .arr [])])
    = .err := by
  simp [deserialize, visitLoop, decUsize, decVec, omul, WORD]
example : deserialize decNat (.obj [("num_cols", .num 1), ("num_cols", .num 1), ("num_rows", .num 1),
    ("data", .arr [.num 1])]) = .err := by
  simp [deserialize, visitLoop, decUsize, WORD]
example : deserialize decNat (.obj [("num_cols", .num 1), ("colour", .num 1)]) = .err := by
  simp [deserialize, visitLoop, decUsize, WORD]
example : deserialize decNat (.arr []) = .err := rfl
/-- non-vacuity of `C19_rejects`: its hypotheses are satisfiable (one-zero-dimension document) -/
example : deserialize decNat (.obj [("num_cols", .num 0), ("num_rows", .num 5), ("data", .arr [])]) = .err :=
  C19_rejects decNat _ 0 5 [] (by simp [visitLoop, decUsize, decVec, WORD]) (.inr (.inr (by decide)))

end Toodee
