import Toodee.Spec.Cells
import Toodee.Proofs.CellsLemmas
import Toodee.Proofs.CopyLemmas
import Toodee.Properties.C20
/-
  C04 — Operations on a mutable view never touch cells outside it (general part).

  Every in-place operation is proved (C13–C17) to produce `gather buf (v.mapCells g)` (pure permutations: swaps, sorts,
  translate, flips) or `v.updCells buf h` (overwrites: fill, copies, indexed writes).  The theorems here say what those two
  forms mean: positions that are not cells of the view keep their content, and cell `(c,r)` gets exactly the content the
  cell function prescribes — the *same* cell function `g`/`h` as for an owned array (`t.asView`), which is the second
  sentence of the property.
-/
namespace Toodee
variable {α : Type}

/-- positions and coordinates of a view are in bijection -/
theorem C04_coord (v : VW) (n : Nat) (h : v.Inv n) :
    (∀ c r, c < v.numCols → r < v.numRows → v.coord? (v.pos c r) = some (c, r) ∧ v.pos c r < n) ∧
    (∀ p c r, v.coord? p = some (c, r) → p = v.pos c r ∧ c < v.numCols ∧ r < v.numRows) :=
  ⟨fun _ _ hc hr => ⟨VW.coord?_pos h hc hr, VW.pos_lt h hc hr⟩, fun _ _ _ hp => VW.coord?_eq_some hp⟩

/-- a cell permutation of the view: length kept, frame untouched, cell `(c,r)` receives old cell `g (c,r)` -/
theorem C04_frame_perm (v : VW) (buf : List α) (h : v.Inv buf.length) (g : Nat × Nat → Nat × Nat)
    (hg : ∀ c r, c < v.numCols → r < v.numRows → (g (c, r)).1 < v.numCols ∧ (g (c, r)).2 < v.numRows) :
    (gather buf (v.mapCells g)).length = buf.length ∧
    (∀ p, v.coord? p = none → (gather buf (v.mapCells g))[p]? = buf[p]?) ∧
    (∀ c r, c < v.numCols → r < v.numRows →
      (gather buf (v.mapCells g))[v.pos c r]? = buf[v.pos (g (c, r)).1 (g (c, r)).2]?) := by
  have hin : ∀ p, p < buf.length → v.mapCells g p < buf.length := fun _ hp => VW.mapCells_lt h g hg hp
  refine ⟨gather_length buf _ hin, ?_, ?_⟩
  · intro p hp
    rw [gather_getElem? buf _ hin, VW.mapCells_of_none g hp]
    by_cases hlt : p < buf.length
    · rw [if_pos hlt]
    · rw [if_neg hlt]; exact (List.getElem?_eq_none (Nat.not_lt.1 hlt)).symm
  · intro c r hc hr
    rw [gather_getElem?_lt buf _ hin (VW.pos_lt h hc hr), VW.mapCells_pos h g hc hr]

/-- an overwrite of cells of the view: length kept, frame untouched, cell `(c,r)` becomes `h (c,r)` if that is `some` -/
theorem C04_frame_upd (v : VW) (buf : List α) (h : v.Inv buf.length) (f : Nat × Nat → Option α) :
    (v.updCells buf f).length = buf.length ∧
    (∀ p, v.coord? p = none → (v.updCells buf f)[p]? = buf[p]?) ∧
    (∀ c r, c < v.numCols → r < v.numRows →
      (v.updCells buf f)[v.pos c r]? = (match f (c, r) with | some x => some x | none => buf[v.pos c r]?)) :=
  ⟨VW.updCells_length v buf f, fun _ hp => VW.updCells_of_none buf f hp,
    fun _ _ hc hr => VW.updCells_pos buf h f hc hr⟩

/-- two position maps that agree on the buffer give the same result -/
theorem C04_gather_congr (buf : List α) (f g : Nat → Nat) (hfg : ∀ p, p < buf.length → f p = g p) :
    gather buf f = gather buf g :=
  gather_congr buf f g hfg

/-- the identity permutation changes nothing -/
theorem C04_gather_id (v : VW) (buf : List α) : gather buf (v.mapCells id) = buf :=
  gather_eq_self buf _ (fun p _ => VW.mapCells_eq_self id (fun _ _ _ _ => rfl) p)

/-- what mutable iteration hands out are cells of the view: every position yielded by `rows_mut()`, `col_mut(c)`,
    `cells_mut()` on a view is a cell of that view (so writes through them stay inside) -/
theorem C04_iter_positions (v : VW) (n : Nat) (h : v.Inv n) :
    (∀ r, r < v.numRows → ∀ p ∈ (v.rowWin r).positions, ∃ c, c < v.numCols ∧ p = v.pos c r) ∧
    (∀ c r, c < v.numCols → r < v.numRows → v.coord? (v.pos c r) ≠ none) := by
  constructor
  · intro r _ p hp
    simp only [Win.positions, VW.rowWin, List.mem_map, List.mem_range] at hp
    obtain ⟨c, hc, rfl⟩ := hp
    exact ⟨c, hc, VW.pos_zero_add v c r⟩
  · intro c r hc hr
    rw [VW.coord?_pos h hc hr]; simp

/-- the cells of a view, row-major: the data of the owned array `TooDee::from(view)` (C20_from_view) -/
def VW.cellsOf (v : VW) (buf : List α) : List α :=
  ((List.range v.numRows).map fun r => (List.range v.numCols).filterMap fun c => buf[v.pos c r]?).flatten

/-- the owned array holding the same cells, seen as a view of its own buffer -/
def VW.ownedShape (v : VW) : VW := ⟨⟨0, v.numCols * v.numRows⟩, v.numCols, v.numRows, v.numCols⟩

/-- length of the copied-out cells, and cell `(c,r)` of the copy is cell `(c,r)` of the view (from C20_from_view) -/
theorem VW.cellsOf_facts (v : VW) (buf : List α) (h : v.Inv buf.length) :
    (v.cellsOf buf).length = v.numCols * v.numRows ∧
    ∀ c r, c < v.numCols → r < v.numRows → (v.cellsOf buf)[r * v.numCols + c]? = buf[v.pos c r]? := by
  obtain ⟨t, _, hinv, hC, hR, hdata, hcells⟩ := C20_from_view .release buf.length v buf h (Nat.le_refl _)
  have he : v.cellsOf buf = t.data := hdata.symm
  rw [he]
  refine ⟨by rw [hinv.len, hC, hR], fun c r hc hr => ?_⟩
  have := hcells c r hc hr
  rw [TD.pos, hC] at this
  exact this

theorem VW.ownedShape_pos (v : VW) (c r : Nat) : v.ownedShape.pos c r = r * v.numCols + c := by
  simp [VW.ownedShape, VW.pos]

theorem VW.ownedShape_inv {v : VW} {n : Nat} (h : v.Inv n) : v.ownedShape.Inv (v.numCols * v.numRows) := by
  have harea := h.area_le
  have hin := h.inside
  have hword := h.word
  refine ⟨Nat.le_refl _, h.zero, ?_, ?_, by omega, h.cols_word⟩
  · show v.numCols * v.numRows = if v.numRows = 0 then 0 else (v.numRows - 1) * v.numCols + v.numCols
    by_cases hR : v.numRows = 0
    · simp [hR]
    · rw [if_neg hR, Nat.mul_comm v.numCols]
      exact (pred_mul_add v.numCols (Nat.pos_of_ne_zero hR)).symm
  · show 0 + v.numCols * v.numRows ≤ _
    omega

/-- two row-major cell lists of the same shape that agree on every cell are equal -/
theorem ext_cells {C R : Nat} {l1 l2 : List α} (h1 : l1.length = C * R) (h2 : l2.length = C * R)
    (hc : ∀ c r, c < C → r < R → l1[r * C + c]? = l2[r * C + c]?) : l1 = l2 := by
  apply List.ext_getElem?
  intro i
  by_cases hi : i < C * R
  · have hC : 0 < C := by
      rcases Nat.eq_zero_or_pos C with h0 | h0
      · rw [h0, Nat.zero_mul] at hi; omega
      · exact h0
    have hr : i / C < R := (Nat.div_lt_iff_lt_mul hC).2 (by rw [Nat.mul_comm]; exact hi)
    have := hc (i % C) (i / C) (Nat.mod_lt _ hC) hr
    have e : i / C * C + i % C = i := by rw [Nat.mul_comm]; exact Nat.div_add_mod i C
    rw [e] at this
    exact this
  · rw [List.getElem?_eq_none (by omega), List.getElem?_eq_none (by omega)]

/-- **Inside the rectangle the effect is exactly the effect the same operation has on an owned array holding the same cells**
    — for every cell permutation: applying `g` through the view and then copying the view out equals copying the view out and
    applying the same `g` to the owned array. -/
theorem C04_same_effect_perm (v : VW) (buf : List α) (h : v.Inv buf.length) (g : Nat × Nat → Nat × Nat)
    (hg : ∀ c r, c < v.numCols → r < v.numRows → (g (c, r)).1 < v.numCols ∧ (g (c, r)).2 < v.numRows) :
    v.cellsOf (gather buf (v.mapCells g)) = gather (v.cellsOf buf) (v.ownedShape.mapCells g) := by
  obtain ⟨hl0, hg0⟩ := v.cellsOf_facts buf h
  obtain ⟨hlen, _, hcell⟩ := C04_frame_perm v buf h g hg
  have h' : v.Inv (gather buf (v.mapCells g)).length := by rw [hlen]; exact h
  obtain ⟨hl1, hg1⟩ := v.cellsOf_facts _ h'
  have hw : v.ownedShape.Inv (v.cellsOf buf).length := by rw [hl0]; exact VW.ownedShape_inv h
  obtain ⟨hlen2, _, hcell2⟩ := C04_frame_perm v.ownedShape (v.cellsOf buf) hw g hg
  apply ext_cells hl1 (by rw [hlen2, hl0])
  intro c r hc hr
  have hgc := hg c r hc hr
  rw [hg1 c r hc hr, hcell c r hc hr]
  have := hcell2 c r hc hr
  rw [VW.ownedShape_pos, VW.ownedShape_pos] at this
  rw [this, hg0 _ _ hgc.1 hgc.2]

/-- … and for every overwrite -/
theorem C04_same_effect_upd (v : VW) (buf : List α) (h : v.Inv buf.length) (f : Nat × Nat → Option α) :
    v.cellsOf (v.updCells buf f) = v.ownedShape.updCells (v.cellsOf buf) f := by
  obtain ⟨hl0, hg0⟩ := v.cellsOf_facts buf h
  obtain ⟨hlen, _, hcell⟩ := C04_frame_upd v buf h f
  have h' : v.Inv (v.updCells buf f).length := by rw [hlen]; exact h
  obtain ⟨hl1, hg1⟩ := v.cellsOf_facts _ h'
  have hw : v.ownedShape.Inv (v.cellsOf buf).length := by rw [hl0]; exact VW.ownedShape_inv h
  obtain ⟨hlen2, _, hcell2⟩ := C04_frame_upd v.ownedShape (v.cellsOf buf) hw f
  apply ext_cells hl1 (by rw [hlen2, hl0])
  intro c r hc hr
  rw [hg1 c r hc hr, hcell c r hc hr]
  have := hcell2 c r hc hr
  rw [VW.ownedShape_pos] at this
  rw [this, hg0 c r hc hr]

/-- the owned shape is a valid receiver over the copied cells -/
theorem C04_owned_shape_inv (v : VW) (buf : List α) (h : v.Inv buf.length) :
    v.ownedShape.Inv (v.cellsOf buf).length ∧ (v.cellsOf buf).length = v.numCols * v.numRows := by
  obtain ⟨hl0, _⟩ := v.cellsOf_facts buf h
  exact ⟨by rw [hl0]; exact VW.ownedShape_inv h, hl0⟩

end Toodee
