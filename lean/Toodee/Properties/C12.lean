import Toodee.Spec.Grid
import Toodee.Spec.IterAbs
import Toodee.Proofs.OwnershipLemmas
/-
  C12 — Leaking a drain, iterator or view leaves a valid array.

  The only returned values that own anything or have a destructor the array depends on are the two drains.
  * `mem::forget(remove_row(i))` at any stage of consumption: the array holds exactly the rows before `i` (`Vec::drain`'s leak
    amplification leaves `data[..start]`; the wrapper keeps the dimensions in step): shape invariant holds, cells are a prefix
    of the old cells, and old cells = kept ++ yielded ++ leaked (a permutation: nothing duplicated).
  * `mem::forget(remove_col(i))` at any stage: the array is empty `(0,0)`; everything not yet yielded is leaked; nothing duplicated.
  * iterators (`Rows`, `RowsMut`, `Col`, `ColMut`, `Cells`, `CellsMut`) and views own nothing and have no destructor: in the
    window model they are plain values separate from the buffer, so forgetting them cannot change the array (stated for
    completeness); `into_iter()` consumes the array.
-/
namespace Toodee
variable {α : Type}

/-- leaking the row drain after it yielded `yielded` (from either end) and still holds `items'` -/
theorem C12_leak_drain_row (m : Mode) (t : TD α) (h : t.Inv) (i : Nat) (hi : i < t.numRows)
    (d : DrainRow α) (hd : t.removeRow m i = .ok d) (items' yielded : List α)
    (hy : (items' ++ yielded).Perm d.items) :
    let r := ({ d with items := items' } : DrainRow α).leak
    r.1.Inv ∧ r.1.data = t.data.take (i * t.numCols) ∧ r.1.numRows = i ∧
    (r.1.data ++ yielded ++ r.2).Perm t.data := by
  have he := ow_removeRow_eq m t h i hi
  rw [hd] at he
  injection he with hdd
  subst hdd
  refine ⟨ow_leak_row_inv t h i (Nat.le_of_lt hi), rfl, rfl, ?_⟩
  show (t.data.take (i * t.numCols) ++ yielded ++ (items' ++ t.data.drop (i * t.numCols + t.numCols))).Perm t.data
  have hs := ow_data_split_row t.data (i * t.numCols) t.numCols
  have h1 : (t.data.take (i * t.numCols) ++ yielded ++ (items' ++ t.data.drop (i * t.numCols + t.numCols))).Perm
      (t.data.take (i * t.numCols) ++ (items' ++ yielded) ++ t.data.drop (i * t.numCols + t.numCols)) := by
    simp only [List.append_assoc]
    apply List.Perm.append_left
    rw [← List.append_assoc, ← List.append_assoc]
    exact List.Perm.append_right _ List.perm_append_comm
  refine h1.trans ?_
  conv => rhs; rw [hs]
  exact List.Perm.append_right _ (List.Perm.append_left _ hy)

/-- `mem::forget(remove_row(i))` after any consumption `w` from either end: shape invariant, the rows before `i` survive, and the
    surviving cells, the yielded items and the leaked elements are together exactly the old cells (nothing duplicated) -/
theorem C12_leak_drain_row_run (m : Mode) (t : TD α) (h : t.Inv) (i : Nat) (hi : i < t.numRows) (w : List Bool) :
    ∃ d, t.removeRow m i = .ok d ∧
      (d.run w).2.leak.1.Inv ∧ (d.run w).2.leak.1.data = t.data.take (i * t.numCols) ∧ (d.run w).2.leak.1.numRows = i ∧
      (d.run w).2.leak.1.grid = t.grid.take i ∧
      ((d.run w).2.leak.1.data ++ (d.run w).1 ++ (d.run w).2.leak.2).Perm t.data := by
  have he := ow_removeRow_eq m t h i hi
  have hy := List.perm_append_comm.trans (dr_ends_perm w ((t.data.drop (i * t.numCols)).take t.numCols))
  have h4 := (C12_leak_drain_row m t h i hi _ he _ _ hy).2.2.2
  refine ⟨_, he, ?_⟩
  rw [dr_row_run]
  exact ⟨ow_leak_row_inv t h i (Nat.le_of_lt hi), rfl, rfl, ow_leak_row_grid t h i (Nat.le_of_lt hi), h4⟩

/-- `mem::forget(remove_col(i))` after any consumption `w` from either end: the array is what `remove_col` left behind — the
    empty array `(0,0)`, which satisfies the shape invariant — and the yielded items plus the leaked elements are exactly the old
    cells (nothing duplicated, nothing reachable through the array any more) -/
theorem C12_leak_drain_col_run (m : Mode) (t : TD α) (h : t.Inv) (i : Nat) (hi : i < t.numCols) (w : List Bool) :
    ∃ d ys d', t.removeCol m i = .ok d ∧ d.run m w = .ok (ys, d') ∧
      d'.leak.1 = (⟨[], 0, 0⟩ : TD α) ∧ d'.leak.1.Inv ∧ (ys ++ d'.leak.2).Perm t.data := by
  have he := ow_removeCol_eq m t h i hi
  obtain ⟨d, hd, _, _, _, _, _, hwf, habs⟩ := C07_remove_col m t h i hi
  rw [he] at hd
  injection hd with hd
  subst hd
  obtain ⟨it', k', _, _, hrun⟩ := dr_col_run m w _ t.numRows hwf
  have hword0 : (0 : Nat) < WORD := by unfold WORD; omega
  -- the yielded positions are distinct cells of the column, inside the buffer
  have hperm := dr_ends_perm w (Col.abs ⟨⟨i, t.data.length - t.numCols + 1⟩, t.numCols - 1⟩ t.numRows)
  have hdist := C09_col_distinct _ t.numRows _ hwf
  have hnd : (Seq.ends (Col.abs ⟨⟨i, t.data.length - t.numCols + 1⟩, t.numCols - 1⟩ t.numRows) w).1.Nodup :=
    (List.nodup_append.1 (hperm.nodup_iff.2 hdist.1)).1
  have hin : ∀ p ∈ (Seq.ends (Col.abs ⟨⟨i, t.data.length - t.numCols + 1⟩, t.numCols - 1⟩ t.numRows) w).1,
      p < t.data.length := fun p hp => hdist.2 p (hperm.subset (List.mem_append_left _ hp))
  refine ⟨_, _, _, he, hrun, ?_, ?_, ?_⟩
  · rw [ow_leak_col_zero _ rfl rfl rfl]
  · rw [ow_leak_col_zero _ rfl rfl rfl]
    exact ⟨rfl, Iff.rfl, hword0⟩
  · rw [ow_leak_col_zero _ rfl rfl rfl]
    exact ow_leak_col_run_perm t.data _ hnd hin

/-- consuming a column drain never touches what the borrowed array shows (the three fields `remove_col` zeroed) -/
theorem C12_drain_col_steps_keep_array (m : Mode) (d : DrainCol α) :
    (∀ x d', d.next = .ok (x, d') → d'.tdLen = d.tdLen ∧ d'.tdCols = d.tdCols ∧ d'.tdRows = d.tdRows ∧ d'.buf = d.buf) ∧
    (∀ x d', d.nextBack m = .ok (x, d') → d'.tdLen = d.tdLen ∧ d'.tdCols = d.tdCols ∧ d'.tdRows = d.tdRows ∧ d'.buf = d.buf) := by
  constructor
  · intro x d' hx
    unfold DrainCol.next at hx
    cases hn : d.iter.next with
    | error e => rw [hn] at hx; cases hx
    | ok r =>
      obtain ⟨p, it⟩ := r
      rw [hn, ok_bind] at hx
      cases p with
      | none =>
        injection hx with hx
        injection hx with _ hx
        subst hx
        exact ⟨rfl, rfl, rfl, rfl⟩
      | some p =>
        simp only at hx
        cases hr : readCell d.buf p with
        | error e => rw [hr] at hx; cases hx
        | ok y =>
          rw [hr, ok_bind] at hx
          injection hx with hx
          injection hx with _ hx
          subst hx
          exact ⟨rfl, rfl, rfl, rfl⟩
  · intro x d' hx
    unfold DrainCol.nextBack at hx
    cases hn : d.iter.nextBack m with
    | error e => rw [hn] at hx; cases hx
    | ok r =>
      obtain ⟨p, it⟩ := r
      rw [hn, ok_bind] at hx
      cases p with
      | none =>
        injection hx with hx
        injection hx with _ hx
        subst hx
        exact ⟨rfl, rfl, rfl, rfl⟩
      | some p =>
        simp only at hx
        cases hr : readCell d.buf p with
        | error e => rw [hr] at hx; cases hx
        | ok y =>
          rw [hr, ok_bind] at hx
          injection hx with hx
          injection hx with _ hx
          subst hx
          exact ⟨rfl, rfl, rfl, rfl⟩

/-- non-vacuity: leak a column drain of a 3x2 array after pulling one item from the back -/
example : (do let d ← TD.removeCol .debug (⟨[1, 2, 3, 4, 5, 6], 2, 3⟩ : TD Nat) 1
              let (ys, d') ← d.run .debug [false]
              pure (ys, d'.leak)) = .ok ([5], (⟨[], 0, 0⟩, [1, 2, 3, 4, 6])) := by
  rfl

end Toodee
