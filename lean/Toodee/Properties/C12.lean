import Toodee.Spec.Grid
import Toodee.Spec.IterAbs
import Toodee.Proofs.OwnershipLemmas
/-
  C12 — Leaking a drain, iterator or view leaves a valid array.

  The only returned values that own anything or have a destructor the array depends on are the two drains.
  * `mem::forget(remove_row(i))` at any stage of consumption: the array holds exactly the rows before `i` (`Vec::drain`'s leak
    amplification leaves `data[..start]`; the wrapper keeps the dimensions in step): shape invariant holds, cells are a prefix
    of the old cells, and old cells = kept ++ yielded ++ leaked (a permutation: nothing duplicated).
  * `mem::forget(remove_col(i))` at any stage: the array is empty `(0,0)`; everything not yet yielded is leaked; nothing duplicated.
  * iterators (`Rows`, `RowsMut`, `Col`, `ColMut`, `Cells`, `CellsMut`) and views own nothing and have no destructor: in the
    window model they are plain values separate from the buffer, so forgetting them cannot change the array (stated for
    completeness); `into_iter()` consumes the array.
-/
namespace Toodee
variable {α : Type}

/-- leaking the row drain after it yielded `yielded` (from either end) and still holds `items'` -/
theorem C12_leak_drain_row (m : Mode) (t : TD α) (h : t.Inv) (i : Nat) (hi : i < t.numRows)
    (d : DrainRow α) (hd : t.removeRow m i = .ok d) (items' yielded : List α)
    (hy : (items' ++ yielded).Perm d.items) :
    let r := ({ d with items := items' } : DrainRow α).leak
    r.1.Inv ∧ r.1.data = t.data.take (i * t.numCols) ∧ r.1.numRows = i ∧
    (r.1.data ++ yielded ++ r.2).Perm t.data := by
  have he := ow_removeRow_eq m t h i hi
  rw [hd] at he
  injection he with hdd
  subst hdd
  refine ⟨ow_leak_row_inv t h i (Nat.le_of_lt hi), rfl, rfl, ?_⟩
  show (t.data.take (i * t.numCols) ++ yielded ++ (items' ++ t.data.drop (i * t.numCols + t.numCols))).Perm t.data
  have hs := ow_data_split_row t.data (i * t.numCols) t.numCols
  have h1 : (t.data.take (i * t.numCols) ++ yielded ++ (items' ++ t.data.drop (i * t.numCols + t.numCols))).Perm
      (t.data.take (i * t.numCols) ++ (items' ++ yielded) ++ t.data.drop (i * t.numCols + t.numCols)) := by
    simp only [List.append_assoc]
    apply List.Perm.append_left
    rw [← List.append_assoc, ← List.append_assoc]
    exact List.Perm.append_right _ List.perm_append_comm
  refine h1.trans ?_
  conv => rhs; rw [hs]
  exact List.Perm.append_right _ (List.Perm.append_left _ hy)

/-- leaking the column drain after any consumption -/
theorem C12_leak_drain_col (d : DrainCol α) :
    d.leak.1 = ⟨[], 0, 0⟩ ∧ (d.leak.1 : TD α).Inv := by
  refine ⟨rfl, ⟨rfl, Iff.rfl, ?_⟩⟩
  show (0 : Nat) < WORD
  unfold WORD
  omega

/-- what the leaked column drain leaves behind plus what it already moved out is exactly the old buffer (no duplication) -/
theorem C12_leak_drain_col_conserves (d : DrainCol α) (hnd : d.taken.Nodup) (hin : ∀ p ∈ d.taken, p < d.buf.length) :
    (d.leak.2 ++ d.taken.filterMap (d.buf[·]?)).Perm d.buf :=
  ow_leak_col_conserves d.buf d.taken hnd hin

end Toodee
