import Toodee.Spec.OpsSpec
import Toodee.Spec.Cells
import Toodee.Impl.Sort
import Toodee.Proofs.SortLemmas
import Toodee.Proofs.CopyLemmas
import Toodee.Properties.C04
/-
  C16 — Sorting by a row permutes whole columns into order (and the shared machinery for C17).

  * `buildSwapTrace p` (for a permutation `p` of `0..n`) returns transpositions `(i,j)` with `i < j < n` whose successive
    application to any list `xs` of length `n` yields `ys` with `ys[k] = xs[p[k]]`; every `get_unchecked` in it is in range.
  * `stablePerm le keys` (the model of `sort_by` on `(index,&key)` pairs) is a permutation of `0..n`, orders the keys, and keeps
    tied keys in their original order.
  * applying the trace to every row = permuting whole columns: `gather buf (v.mapCells (sortColsG p))`, i.e. new column `j` is
    old column `p[j]` on every row; positions outside the view are unchanged.
  * `sort_by_row` = the above with `p = stablePerm le (key row)`; the unstable variant = the above with *any* permutation `p`
    the side sort may return; an out-of-range row panics.
-/
namespace Toodee
variable {α : Type}

/-- apply transpositions to a list, left to right -/
def applySwaps {β : Type} (xs : List β) (trace : List (Nat × Nat)) : List β :=
  trace.foldl (fun l ij => match l[ij.1]?, l[ij.2]? with
    | some a, some b => (l.set ij.1 b).set ij.2 a
    | _, _ => l) xs

theorem C16_build_swap_trace (p : List Nat) (hp : p.Perm (List.range p.length)) :
    ∃ trace, buildSwapTrace p = .ok trace ∧
      (∀ ij ∈ trace, ij.1 < ij.2 ∧ ij.2 < p.length) ∧
      ∀ {β : Type} (xs : List β), xs.length = p.length →
        (applySwaps xs trace).length = p.length ∧ ∀ k, k < p.length → (applySwaps xs trace)[k]? = xs[p.getD k 0]? := by
  obtain ⟨tr, e, hb, ht⟩ := buildSwapTrace_spec p hp
  refine ⟨tr, e, hb, ?_⟩
  intro β xs hx
  have hb' : ∀ ij ∈ tr, ij.1 < p.length ∧ ij.2 < p.length := fun ij h => by
    have := hb ij h; omega
  obtain ⟨h1, h2⟩ := applySwapsL_spec tr hb' xs hx
  exact ⟨h1, fun k hk => by rw [← ht k hk]; exact h2 k⟩

/-- the stable side sort: a permutation, sorted keys, ties in original order.  `le` is a total preorder. -/
theorem C16_stable_perm (le : α → α → Bool) (htrans : ∀ a b c, le a b → le b c → le a c)
    (htotal : ∀ a b, le a b ∨ le b a) (keys : List α) :
    (stablePerm le keys).Perm (List.range keys.length) ∧
    ((stablePerm le keys).filterMap (keys[·]?)).Pairwise (fun a b => le a b = true) ∧
    (∀ i j, i < j → j < keys.length → ∀ a b, keys[(stablePerm le keys).getD i 0]? = some a →
      keys[(stablePerm le keys).getD j 0]? = some b → le b a = true →
      (stablePerm le keys).getD i 0 < (stablePerm le keys).getD j 0) := by
  exact ⟨stablePerm_perm le keys, stablePerm_sorted le htrans htotal keys,
    fun i j hij hj a b ha hb hba => stablePerm_stable le htrans htotal keys i j hij hj a b ha hb hba⟩

/-- applying the trace of permutation `p` to every row permutes whole columns -/
theorem C16_apply_col_perm (v : VW) (buf : List α) (h : v.Inv buf.length) (a : Acc) (ha : a.Of v buf.length)
    (p : List Nat) (hp : p.Perm (List.range v.numCols)) :
    a.applyColPerm buf p = .ok (gather buf (v.mapCells (sortColsG p))) := by
  exact applyColPerm_spec v buf h a ha p hp

/-- `sort_by_row` (and `sort_by_row_key`, `sort_row_ord`, which delegate to it with a derived comparator) -/
theorem C16_sort_by_row (v : VW) (buf : List α) (h : v.Inv buf.length) (a : Acc) (ha : a.Of v buf.length)
    (indexRow : Nat → Res Win) (hidx : ∀ r, r < v.numRows → indexRow r = .ok (v.rowWin r))
    (le : α → α → Bool) (row : Nat) :
    (row < v.numRows →
      a.sortByRow indexRow buf le row =
        .ok (gather buf (v.mapCells (sortColsG (stablePerm le (readWin buf (v.rowWin row))))))) ∧
    (¬ row < v.numRows → a.sortByRow indexRow buf le row = .error .panic) := by
  constructor
  · intro hr
    have hin := VW.rowWin_inside h hr
    have hl : (readWin buf (v.rowWin row)).length = v.numCols := by
      simp only [readWin, List.length_take, List.length_drop]
      have : (v.rowWin row).len = v.numCols := rfl
      omega
    have hp := stablePerm_perm le (readWin buf (v.rowWin row))
    rw [hl] at hp
    simp only [Acc.sortByRow, ha.rows, hr, not_true_eq_false, if_false, ok_bind, hidx row hr]
    exact C16_apply_col_perm v buf h a ha _ hp
  · intro hr
    simp only [Acc.sortByRow, ha.rows, hr, not_false_eq_true, if_true, throw_eq, err_bind]

/-- `sort_unstable_by_row` (and its key / natural-order variants): for every permutation the side sort may return -/
theorem C16_sort_unstable_by_row (v : VW) (buf : List α) (h : v.Inv buf.length) (a : Acc) (ha : a.Of v buf.length)
    (indexRow : Nat → Res Win) (hidx : ∀ r, r < v.numRows → indexRow r = .ok (v.rowWin r))
    (p : List Nat) (hp : p.Perm (List.range v.numCols)) (row : Nat) :
    (row < v.numRows → a.sortUnstableByRow indexRow buf p row = .ok (gather buf (v.mapCells (sortColsG p)))) ∧
    (¬ row < v.numRows → a.sortUnstableByRow indexRow buf p row = .error .panic) := by
  constructor
  · intro hr
    simp only [Acc.sortUnstableByRow, ha.rows, hr, not_true_eq_false, if_false, ok_bind, hidx row hr]
    exact C16_apply_col_perm v buf h a ha p hp
  · intro hr
    simp only [Acc.sortUnstableByRow, ha.rows, hr, not_false_eq_true, if_true, throw_eq, err_bind]

/-- a column permutation is a bijection of the cells: every column of the result is one original column, each once -/
theorem C16_cols_bijective (C R : Nat) (p : List Nat) (hp : p.Perm (List.range C)) :
    (∀ c r, c < C → r < R → (sortColsG p (c, r)).1 < C ∧ (sortColsG p (c, r)).2 = r) ∧
    (∀ c c' r, c < C → c' < C → (sortColsG p (c, r)).1 = (sortColsG p (c', r)).1 → c = c') := by
  have hlen : p.length = C := by rw [hp.length_eq, List.length_range]
  have hnd : p.Nodup := hp.nodup_iff.2 List.nodup_range
  have hget : ∀ c, c < C → p.getD c c = p.getD c 0 := fun c hc => getD_irrel p (by omega) c 0
  have hfacts := perm_range_facts p (by rw [hlen]; exact hp)
  refine ⟨fun c r hc _ => ⟨?_, rfl⟩, fun c c' r hc hc' he => ?_⟩
  · show p.getD c c < C
    rw [hget c hc]
    have := hfacts.1 c (by omega); omega
  · have he' : p.getD c c = p.getD c' c' := he
    rw [hget c hc, hget c' hc'] at he'
    exact hfacts.2.1 c c' (by omega) (by omega) he'

/-- the first clause of the property, on the result buffer: after `sort_by_row` the chosen row is ordered by the comparison
    (`le` a total preorder); likewise for any permutation satisfying the contract of `sort_unstable_by` -/
theorem C16_result_row_sorted (v : VW) (buf : List α) (h : v.Inv buf.length) (p : List Nat)
    (hp : p.Perm (List.range v.numCols)) (row : Nat) (hr : row < v.numRows) (le : α → α → Bool)
    (hsorted : (p.filterMap ((readWin buf (v.rowWin row))[·]?)).Pairwise (fun a b => le a b = true)) :
    (readWin (gather buf (v.mapCells (sortColsG p))) (v.rowWin row)).Pairwise (fun a b => le a b = true) ∧
    readWin (gather buf (v.mapCells (sortColsG p))) (v.rowWin row) = p.filterMap ((readWin buf (v.rowWin row))[·]?) := by
  have hlen : p.length = v.numCols := by rw [hp.length_eq, List.length_range]
  have hg : ∀ c r, c < v.numCols → r < v.numRows →
      (sortColsG p (c, r)).1 < v.numCols ∧ (sortColsG p (c, r)).2 < v.numRows := fun c r hc hr' => by
    have := (C16_cols_bijective v.numCols v.numRows p hp).1 c r hc hr'
    exact ⟨this.1, by rw [this.2]; exact hr'⟩
  obtain ⟨_, _, hcell⟩ := C04_frame_perm v buf h (sortColsG p) hg
  have hsome : ∀ x ∈ p, ((readWin buf (v.rowWin row))[x]?).isSome := by
    intro x hx
    have hx' : x < v.numCols := List.mem_range.1 (hp.mem_iff.1 hx)
    rw [readWin_getElem?, if_pos (show x < (v.rowWin row).len from hx')]
    show (buf[v.pos 0 row + x]?).isSome
    rw [VW.pos_zero_add, List.getElem?_eq_getElem (VW.pos_lt h hx' hr)]
    rfl
  have heq : readWin (gather buf (v.mapCells (sortColsG p))) (v.rowWin row)
      = p.filterMap ((readWin buf (v.rowWin row))[·]?) := by
    apply List.ext_getElem?
    intro k
    rw [readWin_getElem?, filterMap_getElem?_of_isSome _ _ hsome]
    show (if k < v.numCols then (gather buf (v.mapCells (sortColsG p)))[v.pos 0 row + k]? else none) = _
    by_cases hk : k < v.numCols
    · have hpk : p.getD k k < v.numCols := (hg k row hk hr).1
      have hpk' : p[k]? = some (p.getD k k) := by
        rw [List.getD_eq_getElem?_getD, List.getElem?_eq_getElem (by omega)]; rfl
      rw [if_pos hk, VW.pos_zero_add, hcell k row hk hr, hpk', Option.bind_some, readWin_getElem?,
        if_pos (show p.getD k k < (v.rowWin row).len from hpk)]
      show buf[v.pos (p.getD k k) row]? = buf[v.pos 0 row + p.getD k k]?
      rw [VW.pos_zero_add]
    · rw [if_neg hk, List.getElem?_eq_none (by omega)]; rfl
  exact ⟨by rw [heq]; exact hsorted, heq⟩

end Toodee
