import Toodee.Spec.Cells
import Toodee.Impl.Sort
/-
  C16 — Sorting by a row permutes whole columns into order (and the shared machinery for C17).

  * `buildSwapTrace p` (for a permutation `p` of `0..n`) returns transpositions `(i,j)` with `i < j < n` whose successive
    application to any list `xs` of length `n` yields `ys` with `ys[k] = xs[p[k]]`; every `get_unchecked` in it is in range.
  * `stablePerm le keys` (the model of `sort_by` on `(index,&key)` pairs) is a permutation of `0..n`, orders the keys, and keeps
    tied keys in their original order.
  * applying the trace to every row = permuting whole columns: `gather buf (v.mapCells (sortColsG p))`, i.e. new column `j` is
    old column `p[j]` on every row; positions outside the view are unchanged.
  * `sort_by_row` = the above with `p = stablePerm le (key row)`; the unstable variant = the above with *any* permutation `p`
    the side sort may return; an out-of-range row panics.
-/
namespace Toodee
variable {α : Type}

/-- new column `j` is old column `p[j]`, on every row -/
def sortColsG (p : List Nat) : Nat × Nat → Nat × Nat := fun cr => (p.getD cr.1 cr.1, cr.2)

/-- apply transpositions to a list, left to right -/
def applySwaps {β : Type} (xs : List β) (trace : List (Nat × Nat)) : List β :=
  trace.foldl (fun l ij => match l[ij.1]?, l[ij.2]? with
    | some a, some b => (l.set ij.1 b).set ij.2 a
    | _, _ => l) xs

theorem C16_build_swap_trace (p : List Nat) (hp : p.Perm (List.range p.length)) :
    ∃ trace, buildSwapTrace p = .ok trace ∧
      (∀ ij ∈ trace, ij.1 < ij.2 ∧ ij.2 < p.length) ∧
      ∀ {β : Type} (xs : List β), xs.length = p.length →
        (applySwaps xs trace).length = p.length ∧ ∀ k, k < p.length → (applySwaps xs trace)[k]? = xs[p.getD k 0]? := by
  sorry

/-- the stable side sort: a permutation, sorted keys, ties in original order.  `le` is a total preorder. -/
theorem C16_stable_perm (le : α → α → Bool) (htrans : ∀ a b c, le a b → le b c → le a c)
    (htotal : ∀ a b, le a b ∨ le b a) (keys : List α) :
    (stablePerm le keys).Perm (List.range keys.length) ∧
    ((stablePerm le keys).filterMap (keys[·]?)).Pairwise (fun a b => le a b = true) ∧
    (∀ i j, i < j → j < keys.length → ∀ a b, keys[(stablePerm le keys).getD i 0]? = some a →
      keys[(stablePerm le keys).getD j 0]? = some b → le b a = true →
      (stablePerm le keys).getD i 0 < (stablePerm le keys).getD j 0) := by
  sorry

/-- applying the trace of permutation `p` to every row permutes whole columns -/
theorem C16_apply_col_perm (v : VW) (buf : List α) (h : v.Inv buf.length) (a : Acc) (ha : a.Of v buf.length)
    (p : List Nat) (hp : p.Perm (List.range v.numCols)) :
    a.applyColPerm buf p = .ok (gather buf (v.mapCells (sortColsG p))) := by
  sorry

/-- `sort_by_row` (and `sort_by_row_key`, `sort_row_ord`, which delegate to it with a derived comparator) -/
theorem C16_sort_by_row (v : VW) (buf : List α) (h : v.Inv buf.length) (a : Acc) (ha : a.Of v buf.length)
    (indexRow : Nat → Res Win) (hidx : ∀ r, r < v.numRows → indexRow r = .ok (v.rowWin r))
    (le : α → α → Bool) (row : Nat) :
    (row < v.numRows →
      a.sortByRow indexRow buf le row =
        .ok (gather buf (v.mapCells (sortColsG (stablePerm le (readWin buf (v.rowWin row))))))) ∧
    (¬ row < v.numRows → a.sortByRow indexRow buf le row = .error .panic) := by
  sorry

/-- `sort_unstable_by_row` (and its key / natural-order variants): for every permutation the side sort may return -/
theorem C16_sort_unstable_by_row (v : VW) (buf : List α) (h : v.Inv buf.length) (a : Acc) (ha : a.Of v buf.length)
    (indexRow : Nat → Res Win) (hidx : ∀ r, r < v.numRows → indexRow r = .ok (v.rowWin r))
    (p : List Nat) (hp : p.Perm (List.range v.numCols)) (row : Nat) :
    (row < v.numRows → a.sortUnstableByRow indexRow buf p row = .ok (gather buf (v.mapCells (sortColsG p)))) ∧
    (¬ row < v.numRows → a.sortUnstableByRow indexRow buf p row = .error .panic) := by
  sorry

/-- a column permutation is a bijection of the cells: every column of the result is one original column, each once -/
theorem C16_cols_bijective (C R : Nat) (p : List Nat) (hp : p.Perm (List.range C)) :
    (∀ c r, c < C → r < R → (sortColsG p (c, r)).1 < C ∧ (sortColsG p (c, r)).2 = r) ∧
    (∀ c c' r, c < C → c' < C → (sortColsG p (c, r)).1 = (sortColsG p (c', r)).1 → c = c') := by
  sorry

end Toodee
