import Toodee.Spec.OpsSpec
import Toodee.Spec.Cells
import Toodee.Impl.Sort
import Toodee.Proofs.SortLemmas
import Toodee.Proofs.CopyLemmas
import Toodee.Properties.C04Frame
/-
  C16 — Sorting by a row permutes whole columns into order (and the shared machinery for C17).

  * `buildSwapTrace p` (for a permutation `p` of `0..n`) returns transpositions `(i,j)` with `i < j < n` whose successive
    application to any list `xs` of length `n` yields `ys` with `ys[k] = xs[p[k]]`; every `get_unchecked` in it is in range.
  * `stablePerm le keys` (the model of `sort_by` on `(index,&key)` pairs) is a permutation of `0..n`, orders the keys, and keeps
    tied keys in their original order.
  * applying the trace to every row = permuting whole columns: `gather buf (v.mapCells (sortColsG p))`, i.e. new column `j` is
    old column `p[j]` on every row; positions outside the view are unchanged.
  * `sort_by_row` = the above with `p = stablePerm le (key row)`; the unstable variant = the above with *any* permutation `p`
    the side sort may return; an out-of-range row panics.
-/
namespace Toodee
variable {α : Type}

/-- apply transpositions to a list, left to right -/
def applySwaps {β : Type} (xs : List β) (trace : List (Nat × Nat)) : List β :=
  trace.foldl (fun l ij => match l[ij.1]?, l[ij.2]? with
    | some a, some b => (l.set ij.1 b).set ij.2 a
    | _, _ => l) xs

theorem C16_build_swap_trace (p : List Nat) (hp : p.Perm (List.range p.length)) :
    ∃ trace, buildSwapTrace p = .ok trace ∧
      (∀ ij ∈ trace, ij.1 < ij.2 ∧ ij.2 < p.length) ∧
      ∀ {β : Type} (xs : List β), xs.length = p.length →
        (applySwaps xs trace).length = p.length ∧ ∀ k, k < p.length → (applySwaps xs trace)[k]? = xs[p.getD k 0]? := by
  obtain ⟨tr, e, hb, ht⟩ := buildSwapTrace_spec p hp
  refine ⟨tr, e, hb, ?_⟩
  intro β xs hx
  have hb' : ∀ ij ∈ tr, ij.1 < p.length ∧ ij.2 < p.length := fun ij h => by
    have := hb ij h; omega
  obtain ⟨h1, h2⟩ := applySwapsL_spec tr hb' xs hx
  exact ⟨h1, fun k hk => by rw [← ht k hk]; exact h2 k⟩

/-- the stable side sort: a permutation, sorted keys, ties in original order.  `le` is a total preorder. -/
theorem C16_stable_perm (le : α → α → Bool) (htrans : ∀ a b c, le a b → le b c → le a c)
    (htotal : ∀ a b, le a b ∨ le b a) (keys : List α) :
    (stablePerm le keys).Perm (List.range keys.length) ∧
    ((stablePerm le keys).filterMap (keys[·]?)).Pairwise (fun a b => le a b = true) ∧
    (∀ i j, i < j → j < keys.length → ∀ a b, keys[(stablePerm le keys).getD i 0]? = some a →
      keys[(stablePerm le keys).getD j 0]? = some b → le b a = true →
      (stablePerm le keys).getD i 0 < (stablePerm le keys).getD j 0) := by
  exact ⟨stablePerm_perm le keys, stablePerm_sorted le htrans htotal keys,
    fun i j hij hj a b ha hb hba => stablePerm_stable le htrans htotal keys i j hij hj a b ha hb hba⟩

/-- applying the trace of permutation `p` to every row permutes whole columns -/
theorem C16_apply_col_perm (v : VW) (buf : List α) (h : v.Inv buf.length) (a : Acc) (ha : a.Of v buf.length)
    (p : List Nat) (hp : p.Perm (List.range v.numCols)) :
    a.applyColPerm buf p = .ok (gather buf (v.mapCells (sortColsG p))) := by
  exact applyColPerm_spec v buf h a ha p hp

theorem sideStable_sane (le : α → α → Bool) : (sideStable le).Sane :=
  fun keys => .inr ⟨_, rfl, stablePerm_perm le keys⟩

theorem sideGiven_sane_on (p : List Nat) (keys : List α) (hp : p.Perm (List.range keys.length)) :
    (sideGiven p : SideSort α) keys = .ok p ∧ p.Perm (List.range keys.length) := ⟨by simp [sideGiven, hp], hp⟩

/-- the side sort of the unstable methods (whatever permutation it is given) respects std's contract on every key list, so the
    receiver-level theorems (`C04_run_view`, `C13_run_owned`, `C13_run_ext`, the history theorems: all under `op.Sane`) apply
    to the unstable sorts exactly as they do to the stable ones -/
theorem sideGiven_sane (p : List Nat) : (sideGiven p : SideSort α).Sane := by
  intro keys
  by_cases hp : p.Perm (List.range keys.length)
  · exact .inr ⟨p, by simp [sideGiven, hp], hp⟩
  · exact .inl (by simp [sideGiven, hp])

/-- **Every `sort_*_row*` method** (`Acc.sortRowWith`: the one body all six share; `side` = what its side sort does with the keys
    of the chosen row; `lim` = how many entries a side table may have):
    * an out-of-range row panics;
    * a row too long for the side table panics ("capacity overflow") — only reachable for zero-sized elements;
    * if caller code panics inside the side sort, that panic is the outcome (nothing has been written to the array before the
      side sort returns: `applyColPerm` is the only writer and runs afterwards);
    * otherwise whole columns are permuted by the permutation `p` the side sort returned: new column `j` is old column `p[j]`. -/
theorem C16_sort_row_with (v : VW) (buf : List α) (h : v.Inv buf.length) (a : Acc) (ha : a.Of v buf.length)
    (indexRow : Nat → Res Win) (hidx : ∀ r, r < v.numRows → indexRow r = .ok (v.rowWin r))
    (lim : Nat) (side : SideSort α) (row : Nat) :
    (¬ row < v.numRows → a.sortRowWith indexRow buf lim side row = .error .panic) ∧
    (row < v.numRows → ¬ v.numCols ≤ lim → a.sortRowWith indexRow buf lim side row = .error .panic) ∧
    (row < v.numRows → v.numCols ≤ lim → ∀ e, side (readWin buf (v.rowWin row)) = .error e →
      a.sortRowWith indexRow buf lim side row = .error e) ∧
    (row < v.numRows → v.numCols ≤ lim → ∀ p, side (readWin buf (v.rowWin row)) = .ok p → p.Perm (List.range v.numCols) →
      a.sortRowWith indexRow buf lim side row = .ok (gather buf (v.mapCells (sortColsG p)))) := by
  have hl : ∀ r, r < v.numRows → (readWin buf (v.rowWin r)).length = v.numCols := fun r hr => by
    have hin := VW.rowWin_inside h hr
    simp only [readWin, List.length_take, List.length_drop]
    have : (v.rowWin r).len = v.numCols := rfl
    omega
  refine ⟨fun hr => ?_, fun hr hlim => ?_, fun hr hlim e he => ?_, fun hr hlim p hs hp => ?_⟩
  · simp only [Acc.sortRowWith, ha.rows, hr, not_false_eq_true, if_true, throw_eq, err_bind]
  · have hd : sideAllocOk lim v.numCols = false := by
      simp only [sideAllocOk, decide_eq_false_iff_not]; exact hlim
    simp only [Acc.sortRowWith, ha.rows, hr, not_true_eq_false, if_false, ok_bind, hidx row hr, hl row hr, hd,
      Bool.not_false, if_true, throw_eq, err_bind]
  · have hd : sideAllocOk lim v.numCols = true := by
      simp only [sideAllocOk, decide_eq_true_eq]; exact hlim
    simp only [Acc.sortRowWith, ha.rows, hr, not_true_eq_false, if_false, ok_bind, hidx row hr, hl row hr, hd,
      Bool.not_true, Bool.false_eq_true, he, err_bind]
  · have hd : sideAllocOk lim v.numCols = true := by
      simp only [sideAllocOk, decide_eq_true_eq]; exact hlim
    simp only [Acc.sortRowWith, ha.rows, hr, not_true_eq_false, if_false, ok_bind, hidx row hr, hl row hr, hd,
      Bool.not_true, Bool.false_eq_true, hs]
    exact C16_apply_col_perm v buf h a ha p hp

/-- the key row of a view has `num_cols` cells -/
theorem C16_key_row_length (v : VW) (buf : List α) (h : v.Inv buf.length) (row : Nat) (hr : row < v.numRows) :
    (readWin buf (v.rowWin row)).length = v.numCols := by
  have hin := VW.rowWin_inside h hr
  simp only [readWin, List.length_take, List.length_drop]
  have : (v.rowWin row).len = v.numCols := rfl
  omega

/-- `sort_by_row(row, compare)` -/
theorem C16_sort_by_row (v : VW) (buf : List α) (h : v.Inv buf.length) (a : Acc) (ha : a.Of v buf.length)
    (indexRow : Nat → Res Win) (hidx : ∀ r, r < v.numRows → indexRow r = .ok (v.rowWin r))
    (lim : Nat) (hlim : v.numCols ≤ lim) (le : α → α → Bool) (row : Nat) :
    (row < v.numRows →
      a.sortByRow indexRow buf lim le row =
        .ok (gather buf (v.mapCells (sortColsG (stablePerm le (readWin buf (v.rowWin row))))))) ∧
    (¬ row < v.numRows → a.sortByRow indexRow buf lim le row = .error .panic) := by
  obtain ⟨h1, _, _, h4⟩ := C16_sort_row_with v buf h a ha indexRow hidx lim (sideStable le) row
  refine ⟨fun hr => ?_, fun hr => h1 hr⟩
  have hp := stablePerm_perm le (readWin buf (v.rowWin row))
  rw [C16_key_row_length v buf h row hr] at hp
  exact h4 hr hlim _ rfl hp

/-- `sort_unstable_by_row(row, compare)`: for every permutation the side sort may return -/
theorem C16_sort_unstable_by_row (v : VW) (buf : List α) (h : v.Inv buf.length) (a : Acc) (ha : a.Of v buf.length)
    (indexRow : Nat → Res Win) (hidx : ∀ r, r < v.numRows → indexRow r = .ok (v.rowWin r))
    (lim : Nat) (hlim : v.numCols ≤ lim) (p : List Nat) (hp : p.Perm (List.range v.numCols)) (row : Nat) :
    (row < v.numRows → a.sortUnstableByRow indexRow buf lim p row = .ok (gather buf (v.mapCells (sortColsG p)))) ∧
    (¬ row < v.numRows → a.sortUnstableByRow indexRow buf lim p row = .error .panic) := by
  obtain ⟨h1, _, _, h4⟩ := C16_sort_row_with v buf h a ha indexRow hidx lim (sideGiven p) row
  refine ⟨fun hr => h4 hr hlim p ?_ hp, fun hr => h1 hr⟩
  have hp' := hp
  rw [← C16_key_row_length v buf h row hr] at hp'
  simp [sideGiven, hp']

/-- the key and natural-order variants are the comparator variants with the derived comparator (src/sort.rs:68-76, 147-164) -/
theorem C16_variants_delegate {κ : Type} (a : Acc) (indexRow : Nat → Res Win) (buf : List α) (lim : Nat)
    (key : α → κ) (leK : κ → κ → Bool) (leOrd : α → α → Bool) (p : List Nat) (row : Nat) :
    a.sortByRowKey indexRow buf lim key leK row = a.sortByRow indexRow buf lim (fun x y => leK (key x) (key y)) row ∧
    a.sortRowOrd indexRow buf lim leOrd row = a.sortByRow indexRow buf lim leOrd row ∧
    a.sortUnstableByRowKey indexRow buf lim p row = a.sortUnstableByRow indexRow buf lim p row ∧
    a.sortUnstableRowOrd indexRow buf lim p row = a.sortUnstableByRow indexRow buf lim p row :=
  ⟨rfl, rfl, rfl, rfl⟩

/-- a column permutation is a bijection of the cells: every column of the result is one original column, each once -/
theorem C16_cols_bijective (C R : Nat) (p : List Nat) (hp : p.Perm (List.range C)) :
    (∀ c r, c < C → r < R → (sortColsG p (c, r)).1 < C ∧ (sortColsG p (c, r)).2 = r) ∧
    (∀ c c' r, c < C → c' < C → (sortColsG p (c, r)).1 = (sortColsG p (c', r)).1 → c = c') := by
  have hlen : p.length = C := by rw [hp.length_eq, List.length_range]
  have hnd : p.Nodup := hp.nodup_iff.2 List.nodup_range
  have hget : ∀ c, c < C → p.getD c c = p.getD c 0 := fun c hc => getD_irrel p (by omega) c 0
  have hfacts := perm_range_facts p (by rw [hlen]; exact hp)
  refine ⟨fun c r hc _ => ⟨?_, rfl⟩, fun c c' r hc hc' he => ?_⟩
  · show p.getD c c < C
    rw [hget c hc]
    have := hfacts.1 c (by omega); omega
  · have he' : p.getD c c = p.getD c' c' := he
    rw [hget c hc, hget c' hc'] at he'
    exact hfacts.2.1 c c' (by omega) (by omega) he'

/-- the first clause of the property, on the result buffer: after `sort_by_row` the chosen row is ordered by the comparison
    (`le` a total preorder); likewise for any permutation satisfying the contract of `sort_unstable_by` -/
theorem C16_result_row_sorted (v : VW) (buf : List α) (h : v.Inv buf.length) (p : List Nat)
    (hp : p.Perm (List.range v.numCols)) (row : Nat) (hr : row < v.numRows) (le : α → α → Bool)
    (hsorted : (p.filterMap ((readWin buf (v.rowWin row))[·]?)).Pairwise (fun a b => le a b = true)) :
    (readWin (gather buf (v.mapCells (sortColsG p))) (v.rowWin row)).Pairwise (fun a b => le a b = true) ∧
    readWin (gather buf (v.mapCells (sortColsG p))) (v.rowWin row) = p.filterMap ((readWin buf (v.rowWin row))[·]?) := by
  have hlen : p.length = v.numCols := by rw [hp.length_eq, List.length_range]
  have hg : ∀ c r, c < v.numCols → r < v.numRows →
      (sortColsG p (c, r)).1 < v.numCols ∧ (sortColsG p (c, r)).2 < v.numRows := fun c r hc hr' => by
    have := (C16_cols_bijective v.numCols v.numRows p hp).1 c r hc hr'
    exact ⟨this.1, by rw [this.2]; exact hr'⟩
  obtain ⟨_, _, hcell⟩ := C04_frame_perm v buf h (sortColsG p) hg
  have hsome : ∀ x ∈ p, ((readWin buf (v.rowWin row))[x]?).isSome := by
    intro x hx
    have hx' : x < v.numCols := List.mem_range.1 (hp.mem_iff.1 hx)
    rw [readWin_getElem?, if_pos (show x < (v.rowWin row).len from hx')]
    show (buf[v.pos 0 row + x]?).isSome
    rw [VW.pos_zero_add, List.getElem?_eq_getElem (VW.pos_lt h hx' hr)]
    rfl
  have heq : readWin (gather buf (v.mapCells (sortColsG p))) (v.rowWin row)
      = p.filterMap ((readWin buf (v.rowWin row))[·]?) := by
    apply List.ext_getElem?
    intro k
    rw [readWin_getElem?, filterMap_getElem?_of_isSome _ _ hsome]
    show (if k < v.numCols then (gather buf (v.mapCells (sortColsG p)))[v.pos 0 row + k]? else none) = _
    by_cases hk : k < v.numCols
    · have hpk : p.getD k k < v.numCols := (hg k row hk hr).1
      have hpk' : p[k]? = some (p.getD k k) := by
        rw [List.getD_eq_getElem?_getD, List.getElem?_eq_getElem (by omega)]; rfl
      rw [if_pos hk, VW.pos_zero_add, hcell k row hk hr, hpk', Option.bind_some, readWin_getElem?,
        if_pos (show p.getD k k < (v.rowWin row).len from hpk)]
      show buf[v.pos (p.getD k k) row]? = buf[v.pos 0 row + p.getD k k]?
      rw [VW.pos_zero_add]
    · rw [if_neg hk, List.getElem?_eq_none (by omega)]; rfl
  exact ⟨by rw [heq]; exact hsorted, heq⟩

/-- **The property's first sentence for the stable comparator variant, in one statement**: for a total preorder `le` and a valid
    row, `sort_by_row` succeeds; the result is the old array with whole columns permuted by a permutation `p` of the column
    indices (every result column is one original column, each exactly once); the chosen row of the result is ordered by `le`;
    and columns whose keys compare equal (`le` both ways) keep their original left-to-right order. -/
theorem C16_sort_by_row_ordered (v : VW) (buf : List α) (h : v.Inv buf.length) (a : Acc) (ha : a.Of v buf.length)
    (indexRow : Nat → Res Win) (hidx : ∀ r, r < v.numRows → indexRow r = .ok (v.rowWin r))
    (lim : Nat) (hlim : v.numCols ≤ lim) (le : α → α → Bool)
    (htrans : ∀ a b c, le a b → le b c → le a c) (htotal : ∀ a b, le a b ∨ le b a)
    (row : Nat) (hr : row < v.numRows) :
    ∃ p buf', a.sortByRow indexRow buf lim le row = .ok buf' ∧ p.Perm (List.range v.numCols) ∧
      buf' = gather buf (v.mapCells (sortColsG p)) ∧
      (readWin buf' (v.rowWin row)).Pairwise (fun x y => le x y = true) ∧
      (∀ i j, i < j → j < v.numCols → ∀ x y, buf[v.pos (p.getD i 0) row]? = some x → buf[v.pos (p.getD j 0) row]? = some y →
        le y x = true → p.getD i 0 < p.getD j 0) := by
  have hl := C16_key_row_length v buf h row hr
  obtain ⟨hperm, hsorted, hstab⟩ := C16_stable_perm le htrans htotal (readWin buf (v.rowWin row))
  have hperm' : (stablePerm le (readWin buf (v.rowWin row))).Perm (List.range v.numCols) := by
    rw [hl] at hperm; exact hperm
  have hplen : (stablePerm le (readWin buf (v.rowWin row))).length = v.numCols := by
    rw [hperm'.length_eq, List.length_range]
  have hfacts := perm_range_facts (stablePerm le (readWin buf (v.rowWin row))) (by rw [hplen]; exact hperm')
  have hkey : ∀ k, k < v.numCols →
      (readWin buf (v.rowWin row))[(stablePerm le (readWin buf (v.rowWin row))).getD k 0]?
        = buf[v.pos ((stablePerm le (readWin buf (v.rowWin row))).getD k 0) row]? := by
    intro k hk
    have hpk : (stablePerm le (readWin buf (v.rowWin row))).getD k 0 < v.numCols := by
      have := hfacts.1 k (by omega); omega
    rw [readWin_getElem?,
      if_pos (show (stablePerm le (readWin buf (v.rowWin row))).getD k 0 < (v.rowWin row).len from hpk)]
    show buf[v.pos 0 row + _]? = _
    rw [VW.pos_zero_add]
  refine ⟨stablePerm le (readWin buf (v.rowWin row)), _,
    (C16_sort_by_row v buf h a ha indexRow hidx lim hlim le row).1 hr, hperm', rfl,
    (C16_result_row_sorted v buf h _ hperm' row hr le hsorted).1, ?_⟩
  intro i j hij hj x y hx hy hyx
  rw [← hkey i (by omega)] at hx
  rw [← hkey j hj] at hy
  exact hstab i j hij (by omega) x y hx hy hyx

/-- the same for the key-function variant: the chosen row ends up ordered by the keys, columns with equal keys keep their order -/
theorem C16_sort_by_row_key_ordered {κ : Type} (v : VW) (buf : List α) (h : v.Inv buf.length) (a : Acc) (ha : a.Of v buf.length)
    (indexRow : Nat → Res Win) (hidx : ∀ r, r < v.numRows → indexRow r = .ok (v.rowWin r))
    (lim : Nat) (hlim : v.numCols ≤ lim) (key : α → κ) (leK : κ → κ → Bool)
    (htrans : ∀ a b c, leK a b → leK b c → leK a c) (htotal : ∀ a b, leK a b ∨ leK b a)
    (row : Nat) (hr : row < v.numRows) :
    ∃ p buf', a.sortByRowKey indexRow buf lim key leK row = .ok buf' ∧ p.Perm (List.range v.numCols) ∧
      buf' = gather buf (v.mapCells (sortColsG p)) ∧
      (readWin buf' (v.rowWin row)).Pairwise (fun x y => leK (key x) (key y) = true) ∧
      (∀ i j, i < j → j < v.numCols → ∀ x y, buf[v.pos (p.getD i 0) row]? = some x → buf[v.pos (p.getD j 0) row]? = some y →
        leK (key y) (key x) = true → p.getD i 0 < p.getD j 0) := by
  exact C16_sort_by_row_ordered v buf h a ha indexRow hidx lim hlim
    (fun x y => leK (key x) (key y)) (fun a b c => htrans (key a) (key b) (key c)) (fun a b => htotal (key a) (key b)) row hr

/-- … and for the natural-order variant `sort_row_ord` (`leOrd` = `T: Ord`): ordered, ties keep their order -/
theorem C16_sort_row_ord_ordered (v : VW) (buf : List α) (h : v.Inv buf.length) (a : Acc) (ha : a.Of v buf.length)
    (indexRow : Nat → Res Win) (hidx : ∀ r, r < v.numRows → indexRow r = .ok (v.rowWin r))
    (lim : Nat) (hlim : v.numCols ≤ lim) (leOrd : α → α → Bool)
    (htrans : ∀ a b c, leOrd a b → leOrd b c → leOrd a c) (htotal : ∀ a b, leOrd a b ∨ leOrd b a)
    (row : Nat) (hr : row < v.numRows) :
    ∃ p buf', a.sortRowOrd indexRow buf lim leOrd row = .ok buf' ∧ p.Perm (List.range v.numCols) ∧
      buf' = gather buf (v.mapCells (sortColsG p)) ∧
      (readWin buf' (v.rowWin row)).Pairwise (fun x y => leOrd x y = true) ∧
      (∀ i j, i < j → j < v.numCols → ∀ x y, buf[v.pos (p.getD i 0) row]? = some x → buf[v.pos (p.getD j 0) row]? = some y →
        leOrd y x = true → p.getD i 0 < p.getD j 0) :=
  C16_sort_by_row_ordered v buf h a ha indexRow hidx lim hlim leOrd htrans htotal row hr

/-- non-vacuity: a 3x2 owned array sorted by its row 0 (keys 30,10,20): columns move as wholes -/
example : (⟨[30, 10, 20, 1, 2, 3], 2, 3⟩ : TD Nat).acc.sortByRow
      ((⟨[30, 10, 20, 1, 2, 3], 2, 3⟩ : TD Nat).indexRow .debug) [30, 10, 20, 1, 2, 3] 100 (fun a b => decide (a ≤ b)) 0
    = .ok [10, 20, 30, 2, 3, 1] := by
  have h : (⟨[30, 10, 20, 1, 2, 3], 2, 3⟩ : TD Nat).Inv := ⟨rfl, by decide, by decide⟩
  obtain ⟨hv, _⟩ := TD.asView_inv _ h
  have ha : (⟨[30, 10, 20, 1, 2, 3], 2, 3⟩ : TD Nat).acc.Of (⟨[30, 10, 20, 1, 2, 3], 2, 3⟩ : TD Nat).asView 6 := by
    obtain ⟨hwf, habs⟩ := C08_rows_owned _ h
    exact ⟨rfl, rfl, hwf, habs⟩
  have hidx : ∀ r, r < 2 → (⟨[30, 10, 20, 1, 2, 3], 2, 3⟩ : TD Nat).indexRow .debug r
      = .ok ((⟨[30, 10, 20, 1, 2, 3], 2, 3⟩ : TD Nat).asView.rowWin r) := by
    intro r hr
    match r, hr with
    | 0, _ => rfl
    | 1, _ => rfl
  have hs := (C16_sort_by_row _ _ hv _ ha _ hidx 100 (by decide) (fun a b => decide (a ≤ b)) 0).1 (by decide)
  rw [hs]
  have hp : stablePerm (fun a b : Nat => decide (a ≤ b)) [30, 10, 20] = [1, 2, 0] := by
    simp [stablePerm, List.zipIdx, List.mergeSort, List.MergeSort.Internal.splitInTwo]
  have hk : readWin [30, 10, 20, 1, 2, 3] ((⟨[30, 10, 20, 1, 2, 3], 2, 3⟩ : TD Nat).asView.rowWin 0) = [30, 10, 20] := rfl
  rw [hk, hp]
  rfl

end Toodee
