import Toodee.Spec.Cells
import Toodee.Impl.Translate
/-
  C15 — Translate and flip are the stated bijections on cell positions.

  `translate_with_wrap((mc,mr))` with `mc ≤ C`, `mr ≤ R`: new[(c,r)] = old[((c+mc) mod C, (r+mr) mod R)] — as a cell
  permutation of the receiver (`gather buf (v.mapCells …)`), so nothing is lost or duplicated and every position outside
  the view is unchanged; a larger `mid` panics.  `flip_rows`: new[(c,r)] = old[(c,R-1-r)]; `flip_cols`: new[(c,r)] =
  old[(C-1-c,r)].  The fuelled loops of the model never run out of fuel; no `ub`; both build modes.
-/
namespace Toodee
variable {α : Type}

def translateG (C R mc mr : Nat) : Nat × Nat → Nat × Nat := fun cr => ((cr.1 + mc) % C, (cr.2 + mr) % R)
def flipRowsG (R : Nat) : Nat × Nat → Nat × Nat := fun cr => (cr.1, R - 1 - cr.2)
def flipColsG (C : Nat) : Nat × Nat → Nat × Nat := fun cr => (C - 1 - cr.1, cr.2)

/-- the three cell maps are bijections of the `C x R` rectangle -/
theorem C15_maps_bijective (C R mc mr : Nat) :
    (∀ g ∈ [translateG C R mc mr, flipRowsG R, flipColsG C],
      (∀ c r, c < C → r < R → (g (c, r)).1 < C ∧ (g (c, r)).2 < R) ∧
      (∀ c r c' r', c < C → r < R → c' < C → r' < R → g (c, r) = g (c', r') → (c, r) = (c', r'))) := by
  sorry

theorem C15_flip_rows (m : Mode) (v : VW) (buf : List α) (h : v.Inv buf.length) (a : Acc) (ha : a.Of v buf.length) :
    a.flipRows m buf = .ok (gather buf (v.mapCells (flipRowsG v.numRows))) := by
  sorry

theorem C15_flip_cols (v : VW) (buf : List α) (h : v.Inv buf.length) (a : Acc) (ha : a.Of v buf.length) :
    a.flipCols buf = .ok (gather buf (v.mapCells (flipColsG v.numCols))) := by
  sorry

/-- a `mid` beyond the size panics (before anything is touched) -/
theorem C15_translate_reject (m : Mode) (a : Acc) (getRowMut : Nat → Res Win) (buf : List α) (mid : Nat × Nat)
    (hbad : ¬ (mid.1 ≤ a.numCols ∧ mid.2 ≤ a.numRows)) :
    a.translateWithWrap m getRowMut buf mid = .error .panic := by
  sorry

/-- the column-only fast path (`row_mid == 0` after normalisation) -/
theorem C15_translate_cols_only (m : Mode) (v : VW) (buf : List α) (h : v.Inv buf.length) (a : Acc)
    (ha : a.Of v buf.length) (getRowMut : Nat → Res Win) (mid : Nat × Nat)
    (hm : mid.1 ≤ v.numCols) (hr : mid.2 = 0 ∨ mid.2 = v.numRows) :
    a.translateWithWrap m getRowMut buf mid =
      .ok (gather buf (v.mapCells (translateG v.numCols v.numRows mid.1 mid.2))) := by
  sorry

/-- the general statement: `get_unchecked_row_mut` of the implementor returns the row window (C02) -/
theorem C15_translate (m : Mode) (v : VW) (buf : List α) (h : v.Inv buf.length) (a : Acc) (ha : a.Of v buf.length)
    (getRowMut : Nat → Res Win) (hget : ∀ r, r < v.numRows → getRowMut r = .ok (v.rowWin r))
    (mid : Nat × Nat) (hm : mid.1 ≤ v.numCols ∧ mid.2 ≤ v.numRows) :
    a.translateWithWrap m getRowMut buf mid =
      .ok (gather buf (v.mapCells (translateG v.numCols v.numRows mid.1 mid.2))) := by
  sorry

end Toodee
