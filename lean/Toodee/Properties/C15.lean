import Toodee.Spec.OpsSpec
import Toodee.Spec.Cells
import Toodee.Impl.Translate
import Toodee.Proofs.TranslateLemmas
import Toodee.Proofs.Orbit
/-
  C15 — Translate and flip are the stated bijections on cell positions.

  `translate_with_wrap((mc,mr))` with `mc ≤ C`, `mr ≤ R`: new[(c,r)] = old[((c+mc) mod C, (r+mr) mod R)] — as a cell
  permutation of the receiver (`gather buf (v.mapCells …)`), so nothing is lost or duplicated and every position outside
  the view is unchanged; a larger `mid` panics.  `flip_rows`: new[(c,r)] = old[(c,R-1-r)]; `flip_cols`: new[(c,r)] =
  old[(C-1-c,r)].  The fuelled loops of the model never run out of fuel; no `ub`; both build modes.
-/
namespace Toodee
variable {α : Type}

/-- the three cell maps are bijections of the `C x R` rectangle -/
theorem C15_maps_bijective (C R mc mr : Nat) :
    (∀ g ∈ [translateG C R mc mr, flipRowsG R, flipColsG C],
      (∀ c r, c < C → r < R → (g (c, r)).1 < C ∧ (g (c, r)).2 < R) ∧
      (∀ c r c' r', c < C → r < R → c' < C → r' < R → g (c, r) = g (c', r') → (c, r) = (c', r'))) := by
  intro g hg
  simp only [List.mem_cons, List.not_mem_nil, or_false] at hg
  rcases hg with rfl | rfl | rfl
  · refine ⟨fun c r hc hr => ⟨Nat.mod_lt _ (by omega), Nat.mod_lt _ (by omega)⟩, ?_⟩
    intro c r c' r' hc hr hc' hr' he
    simp only [translateG, Prod.mk.injEq] at he
    rw [tr_add_mod_inj hc hc' he.1, tr_add_mod_inj hr hr' he.2]
  · refine ⟨fun c r hc hr => ⟨hc, by simp only [flipRowsG]; omega⟩, ?_⟩
    intro c r c' r' hc hr hc' hr' he
    simp only [flipRowsG, Prod.mk.injEq] at he
    simp only [Prod.mk.injEq]; omega
  · refine ⟨fun c r hc hr => ⟨by simp only [flipColsG]; omega, hr⟩, ?_⟩
    intro c r c' r' hc hr hc' hr' he
    simp only [flipColsG, Prod.mk.injEq] at he
    simp only [Prod.mk.injEq]; omega

theorem C15_flip_rows (m : Mode) (v : VW) (buf : List α) (h : v.Inv buf.length) (a : Acc) (ha : a.Of v buf.length) :
    a.flipRows m buf = .ok (gather buf (v.mapCells (flipRowsG v.numRows))) := by
  unfold Acc.flipRows
  refine flipRowsLoop_spec m buf h _ 0 v.numRows a.rows buf ha.wf ?_ (by omega)
    (by have := tr_wf_le_len ha.wf; omega) ?_
  · rw [ha.abs, List.range_eq_range']; rfl
  · exact (gather_eq_self buf _ (fun p _ => VW.mapCells_eq_self _
      (fun c r _ hr => by simp only [flipPrefG]; rw [if_neg (by omega)]) p)).symm

theorem C15_flip_cols (v : VW) (buf : List α) (h : v.Inv buf.length) (a : Acc) (ha : a.Of v buf.length) :
    a.flipCols buf = .ok (gather buf (v.mapCells (flipColsG v.numCols))) := by
  unfold Acc.flipCols
  rw [ha.collect_rows]
  simp only [ok_bind, pure_eq]
  congr 1
  rw [foldl_rows buf h (fun c => v.numCols - 1 - c) (fun c hc => by omega) _
    (fun cur r hl hr => gather_congr cur _ _ (fun p _ => revMap_eq_mapCells (hl ▸ h) hr p)) v.numRows (Nat.le_refl _)]
  exact gather_congr buf _ _ (fun p _ => VW.mapCells_congr _ _ (fun c r _ hr => by simp [prefColG, flipColsG, hr]) p)

/-- a `mid` beyond the size panics (before anything is touched) -/
theorem C15_translate_reject (m : Mode) (a : Acc) (getRowMut : Nat → Res Win) (buf : List α) (mid : Nat × Nat)
    (hbad : ¬ (mid.1 ≤ a.numCols ∧ mid.2 ≤ a.numRows)) :
    a.translateWithWrap m getRowMut buf mid = .error .panic := by
  unfold Acc.translateWithWrap
  by_cases h1 : mid.1 ≤ a.numCols
  · have h2 : ¬ mid.2 ≤ a.numRows := fun h2 => hbad ⟨h1, h2⟩
    simp [h1, h2]
  · simp [h1]

/-- the column-only fast path (`row_mid == 0` after normalisation) -/
theorem C15_translate_cols_only (m : Mode) (v : VW) (buf : List α) (h : v.Inv buf.length) (a : Acc)
    (ha : a.Of v buf.length) (getRowMut : Nat → Res Win) (mid : Nat × Nat)
    (hm : mid.1 ≤ v.numCols) (hr : mid.2 = 0 ∨ mid.2 = v.numRows) :
    a.translateWithWrap m getRowMut buf mid =
      .ok (gather buf (v.mapCells (translateG v.numCols v.numRows mid.1 mid.2))) := by
  exact translate_cols_only m buf h ha getRowMut mid hm hr

/-- the general statement: `get_unchecked_row_mut` of the implementor returns the row window (C02) -/
theorem C15_translate (m : Mode) (v : VW) (buf : List α) (h : v.Inv buf.length) (a : Acc) (ha : a.Of v buf.length)
    (getRowMut : Nat → Res Win) (hget : ∀ r, r < v.numRows → getRowMut r = .ok (v.rowWin r))
    (mid : Nat × Nat) (hm : mid.1 ≤ v.numCols ∧ mid.2 ≤ v.numRows) :
    a.translateWithWrap m getRowMut buf mid =
      .ok (gather buf (v.mapCells (translateG v.numCols v.numRows mid.1 mid.2))) := by
  exact translate_spec m buf h ha getRowMut hget mid hm

end Toodee
