import Toodee.Spec.OpsSpec
import Toodee.Spec.Cells
import Toodee.Impl.Translate
import Toodee.Proofs.TranslateLemmas
import Toodee.Proofs.Orbit
/-
  C15 — Translate and flip are the stated bijections on cell positions.

  `translate_with_wrap((mc,mr))` with `mc ≤ C`, `mr ≤ R`: new[(c,r)] = old[((c+mc) mod C, (r+mr) mod R)] — as a cell
  permutation of the receiver (`gather buf (v.mapCells …)`), so nothing is lost or duplicated and every position outside
  the view is unchanged; a larger `mid` panics.  `flip_rows`: new[(c,r)] = old[(c,R-1-r)]; `flip_cols`: new[(c,r)] =
  old[(C-1-c,r)].  The fuelled loops of the model never run out of fuel; no `ub`; both build modes.
-/
namespace Toodee
variable {α : Type}

/-- the three cell maps are bijections of the `C x R` rectangle -/
theorem C15_maps_bijective (C R mc mr : Nat) :
    (∀ g ∈ [translateG C R mc mr, flipRowsG R, flipColsG C],
      (∀ c r, c < C → r < R → (g (c, r)).1 < C ∧ (g (c, r)).2 < R) ∧
      (∀ c r c' r', c < C → r < R → c' < C → r' < R → g (c, r) = g (c', r') → (c, r) = (c', r'))) := by
  intro g hg
  simp only [List.mem_cons, List.not_mem_nil, or_false] at hg
  rcases hg with rfl | rfl | rfl
  · refine ⟨fun c r hc hr => ⟨Nat.mod_lt _ (by omega), Nat.mod_lt _ (by omega)⟩, ?_⟩
    intro c r c' r' hc hr hc' hr' he
    simp only [translateG, Prod.mk.injEq] at he
    rw [tr_add_mod_inj hc hc' he.1, tr_add_mod_inj hr hr' he.2]
  · refine ⟨fun c r hc hr => ⟨hc, by simp only [flipRowsG]; omega⟩, ?_⟩
    intro c r c' r' hc hr hc' hr' he
    simp only [flipRowsG, Prod.mk.injEq] at he
    simp only [Prod.mk.injEq]; omega
  · refine ⟨fun c r hc hr => ⟨by simp only [flipColsG]; omega, hr⟩, ?_⟩
    intro c r c' r' hc hr hc' hr' he
    simp only [flipColsG, Prod.mk.injEq] at he
    simp only [Prod.mk.injEq]; omega

theorem C15_flip_rows (m : Mode) (v : VW) (buf : List α) (h : v.Inv buf.length) (a : Acc) (ha : a.Of v buf.length) :
    a.flipRows m buf = .ok (gather buf (v.mapCells (flipRowsG v.numRows))) := by
  unfold Acc.flipRows
  refine flipRowsLoop_spec m buf h _ 0 v.numRows a.rows buf ha.wf ?_ (by omega)
    (by have := tr_wf_le_len ha.wf; omega) ?_
  · rw [ha.abs, List.range_eq_range']; rfl
  · exact (gather_eq_self buf _ (fun p _ => VW.mapCells_eq_self _
      (fun c r _ hr => by simp only [flipPrefG]; rw [if_neg (by omega)]) p)).symm

theorem C15_flip_cols (v : VW) (buf : List α) (h : v.Inv buf.length) (a : Acc) (ha : a.Of v buf.length) :
    a.flipCols buf = .ok (gather buf (v.mapCells (flipColsG v.numCols))) := by
  unfold Acc.flipCols
  rw [ha.collect_rows]
  simp only [ok_bind, pure_eq]
  congr 1
  rw [foldl_rows buf h (fun c => v.numCols - 1 - c) (fun c hc => by omega) _
    (fun cur r hl hr => gather_congr cur _ _ (fun p _ => revMap_eq_mapCells (hl ▸ h) hr p)) v.numRows (Nat.le_refl _)]
  exact gather_congr buf _ _ (fun p _ => VW.mapCells_congr _ _ (fun c r _ hr => by simp [prefColG, flipColsG, hr]) p)

/-- a `mid` beyond the size panics (before anything is touched) -/
theorem C15_translate_reject (m : Mode) (a : Acc) (getRowMut : Nat → Res Win) (buf : List α) (mid : Nat × Nat)
    (hbad : ¬ (mid.1 ≤ a.numCols ∧ mid.2 ≤ a.numRows)) :
    a.translateWithWrap m getRowMut buf mid = .error .panic := by
  unfold Acc.translateWithWrap
  by_cases h1 : mid.1 ≤ a.numCols
  · have h2 : ¬ mid.2 ≤ a.numRows := fun h2 => hbad ⟨h1, h2⟩
    simp [h1, h2]
  · simp [h1]

/-- the column-only fast path (`row_mid == 0` after normalisation) -/
theorem C15_translate_cols_only (m : Mode) (v : VW) (buf : List α) (h : v.Inv buf.length) (a : Acc)
    (ha : a.Of v buf.length) (getRowMut : Nat → Res Win) (mid : Nat × Nat)
    (hm : mid.1 ≤ v.numCols) (hr : mid.2 = 0 ∨ mid.2 = v.numRows) :
    a.translateWithWrap m getRowMut buf mid =
      .ok (gather buf (v.mapCells (translateG v.numCols v.numRows mid.1 mid.2))) := by
  exact translate_cols_only m buf h ha getRowMut mid hm hr

/-- the general statement: `get_unchecked_row_mut` of the implementor returns the row window (C02) -/
theorem C15_translate (m : Mode) (v : VW) (buf : List α) (h : v.Inv buf.length) (a : Acc) (ha : a.Of v buf.length)
    (getRowMut : Nat → Res Win) (hget : ∀ r, r < v.numRows → getRowMut r = .ok (v.rowWin r))
    (mid : Nat × Nat) (hm : mid.1 ≤ v.numCols ∧ mid.2 ≤ v.numRows) :
    a.translateWithWrap m getRowMut buf mid =
      .ok (gather buf (v.mapCells (translateG v.numCols v.numRows mid.1 mid.2))) := by
  exact translate_spec m buf h ha getRowMut hget mid hm

/-- non-vacuity: flips of a 2x2 window (stride 3, offset 1) of an 8-cell buffer as concrete computations, and the hypotheses
    of `C15_flip_rows` hold for it -/
example : (⟨2, 2, ⟨⟨1, 5⟩, 2, 1⟩⟩ : Acc).flipRows .debug [0, 1, 2, 3, 4, 5, 6, 7] = .ok [0, 4, 5, 3, 1, 2, 6, 7] ∧
    (⟨2, 2, ⟨⟨1, 5⟩, 2, 1⟩⟩ : Acc).flipCols [0, 1, 2, 3, 4, 5, 6, 7] = .ok [0, 2, 1, 3, 5, 4, 6, 7] := ⟨by rfl, by rfl⟩
example : (⟨2, 2, ⟨⟨1, 5⟩, 2, 1⟩⟩ : Acc).flipRows .release [0, 1, 2, 3, 4, 5, 6, 7] =
    .ok (gather [0, 1, 2, 3, 4, 5, 6, 7] ((⟨⟨1, 5⟩, 2, 2, 3⟩ : VW).mapCells (flipRowsG 2))) :=
  C15_flip_rows .release ⟨⟨1, 5⟩, 2, 2, 3⟩ [0, 1, 2, 3, 4, 5, 6, 7]
    ⟨by decide, by decide, by decide, by decide, by decide, by decide⟩ _
    ⟨rfl, rfl, ⟨by decide, by decide, by decide, by decide, by decide⟩, rfl⟩
/-- non-vacuity: `translate_with_wrap((1,1))` of a concrete 3x2 array: new `(c,r)` = old `((c+1) mod 3, (r+1) mod 2)`
    (concrete computation); a `mid` beyond the size panics (`C15_translate_reject`); the hypotheses of `C15_translate`
    (row accessor included) hold -/
example : (TD.acc (⟨[1, 2, 3, 4, 5, 6], 2, 3⟩ : TD Nat)).translateWithWrap .debug (fun r => .ok ⟨r * 3, 3⟩)
      [1, 2, 3, 4, 5, 6] (1, 1) = .ok [5, 6, 4, 2, 3, 1] ∧
    (TD.acc (⟨[1, 2, 3, 4, 5, 6], 2, 3⟩ : TD Nat)).translateWithWrap .debug (fun r => .ok ⟨r * 3, 3⟩)
      [1, 2, 3, 4, 5, 6] (4, 1) = .error .panic :=
  ⟨by rfl, C15_translate_reject .debug _ _ _ (4, 1) (by decide)⟩
example : (TD.acc (⟨[1, 2, 3, 4, 5, 6], 2, 3⟩ : TD Nat)).translateWithWrap .release (fun r => .ok ⟨r * 3, 3⟩)
    [1, 2, 3, 4, 5, 6] (1, 1) = .ok (gather [1, 2, 3, 4, 5, 6]
      ((TD.asView (⟨[1, 2, 3, 4, 5, 6], 2, 3⟩ : TD Nat)).mapCells (translateG 3 2 1 1))) :=
  C15_translate .release (TD.asView (⟨[1, 2, 3, 4, 5, 6], 2, 3⟩ : TD Nat)) [1, 2, 3, 4, 5, 6]
    (TD.asView_inv _ ⟨rfl, by decide, by decide⟩).1 _ (C13_acc_owned _ ⟨rfl, by decide, by decide⟩)
    (fun r => .ok ⟨r * 3, 3⟩) (fun r _ => by simp [VW.rowWin, VW.pos, TD.asView, TD.win]) (1, 1) (by decide)

end Toodee
