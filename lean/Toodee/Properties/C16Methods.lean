import Toodee.Properties.C17
/-
  C16 / C17 (method part) — each of the eleven public sort methods, on every receiver kind, is the one transcribed body of its
  line kind (`MOp.sortRow` / `MOp.sortCol`, to which C16_sort_row_with / C17_sort_col_with and the refinement theorems
  C04_run_view / C13_run_owned apply) with the side sort the method's name promises: the stable sort under the caller's order for
  the six stable methods, the returned permutation for the five unstable ones.  `Recv.runSort` is what the correspondence driver
  executes for a sort line.
-/
namespace Toodee
variable {α : Type}

theorem C16_methods_dispatch (m : Mode) (lim : Nat) (rc : Recv α) (buf : List α) (meth : SortMethod) (le : α → α → Bool)
    (p : List Nat) (k : Nat) :
    rc.runSort m lim buf meth le p k =
      rc.run m lim buf
        (if meth.isRow then .sortRow (if meth.isStable then sideStable le else sideGiven p) k
         else .sortCol (if meth.isStable then sideStable le else sideGiven p) k) := by
  cases meth <;> rfl

end Toodee
