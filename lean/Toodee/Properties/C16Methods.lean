import Toodee.Properties.C17
import Toodee.Properties.C13Dispatch
/-
  C16 / C17 (method part) — each of the eleven public sort methods, on every receiver kind, is the one transcribed body of its
  line kind (`MOp.sortRow` / `MOp.sortCol`, to which C16_sort_row_with / C17_sort_col_with and the refinement theorems
  C04_run_view / C13_run_owned apply) with the side sort the method's name promises: the stable sort under the caller's order for
  the six stable methods, the returned permutation for the five unstable ones.  `Recv.runSort` is what the correspondence driver
  executes for a sort line.
-/
namespace Toodee
variable {α : Type}

theorem C16_methods_dispatch (m : Mode) (lim : Nat) (rc : Recv α) (buf : List α) (meth : SortMethod) (le : α → α → Bool)
    (p : List Nat) (k : Nat) :
    rc.runSort m lim buf meth le p k =
      rc.run m lim buf
        (if meth.isRow then .sortRow (if meth.isStable then sideStable le else sideGiven p) k
         else .sortCol (if meth.isStable then sideStable le else sideGiven p) k) := by
  cases meth <;> rfl

/-- the operation a sort method stands for -/
def SortMethod.op (meth : SortMethod) (le : α → α → Bool) (p : List Nat) (k : Nat) : MOp α :=
  if meth.isRow then .sortRow (if meth.isStable then sideStable le else sideGiven p) k
  else .sortCol (if meth.isStable then sideStable le else sideGiven p) k

/-- … and it respects std's contract for **all eleven** methods, the unstable ones included (whatever permutation `p` the side
    sort is taken to return): the hypothesis `op.Sane` of the refinement theorems is met -/
theorem C16_methods_sane (meth : SortMethod) (le : α → α → Bool) (p : List Nat) (k : Nat) : (meth.op le p k).Sane := by
  unfold SortMethod.op
  cases hr : meth.isRow <;> cases hst : meth.isStable <;> simp only [MOp.Sane, if_true, if_false, Bool.false_eq_true] <;>
    first | exact sideStable_sane le | exact sideGiven_sane p

/-- **every sort method on a view is its specification** (`MOp.spec`: the cell-wise statement; nothing outside the view moves —
    C04_spec_frame), stable and unstable alike -/
theorem C16_methods_view (m : Mode) (lim : Nat) (v : VW) (buf : List α) (h : v.Inv buf.length) (meth : SortMethod)
    (le : α → α → Bool) (p : List Nat) (k : Nat) :
    (Recv.vmut v).runSort m lim buf meth le p k = (meth.op le p k).spec v lim buf := by
  rw [C16_methods_dispatch]
  exact C04_run_view m lim v buf h (meth.op le p k) (C16_methods_sane meth le p k)
    (by unfold SortMethod.op; cases meth.isRow <;> simp [MOp.srcOk])

/-- … on an owned array and on a third-party implementor -/
theorem C16_methods_owned (m : Mode) (lim : Nat) (t : TD α) (h : t.Inv) (meth : SortMethod)
    (le : α → α → Bool) (p : List Nat) (k : Nat) :
    (Recv.root t).runSort m lim t.data meth le p k = (meth.op le p k).spec t.asView lim t.data ∧
    (Recv.ext t).runSort m lim t.data meth le p k = (meth.op le p k).spec t.asView lim t.data := by
  have hsrc : (meth.op le p k).srcOk := by unfold SortMethod.op; cases meth.isRow <;> simp [MOp.srcOk]
  rw [C16_methods_dispatch, C16_methods_dispatch]
  exact ⟨C13_run_owned m lim t h _ (C16_methods_sane meth le p k) hsrc, C13_run_ext m lim t h _ (C16_methods_sane meth le p k) hsrc⟩

/-- **general key functions**: `Recv.runSort` carries one order `le`; calling a `*_key` method with key function `key` (keys ordered
    by `leK`) on any receiver is `runSort` of that method with `le x y := leK (key x) (key y)` (src/sort.rs: the `*_key` wrappers
    build exactly this comparator), so the theorems above — and the ordered / ties-keep-their-order statements
    `C16_sort_by_row_key_ordered`, `C17_sort_by_col_key_ordered` — cover every key function, not only the identity -/
theorem C16_methods_key {κ : Type} (m : Mode) (lim : Nat) (rc : Recv α) (buf : List α) (key : α → κ) (leK : κ → κ → Bool)
    (p : List Nat) (k : Nat) :
    (do let rc' := rc.setBuf buf
        let a ← rc'.acc m
        a.sortByRowKey (rc'.indexRow m) buf lim key leK k)
      = rc.runSort m lim buf .sort_by_row_key (fun x y => leK (key x) (key y)) p k ∧
    (do let rc' := rc.setBuf buf
        let a ← rc'.acc m
        a.sortByColKey (rc'.col m) (rc'.swapRows m) buf lim key leK k)
      = rc.runSort m lim buf .sort_by_col_key (fun x y => leK (key x) (key y)) p k :=
  ⟨rfl, rfl⟩

/-- the side sort of the unstable methods on concrete keys: the permutation it is given, or nothing std could have returned -/
example : (sideGiven [1, 0] : SideSort Nat) [5, 6] = .ok [1, 0] ∧ (sideGiven [1, 1] : SideSort Nat) [5, 6] = .error .panic := ⟨rfl, rfl⟩

end Toodee
