import Toodee.Properties.C04Frame
import Toodee.Properties.C02
import Toodee.Properties.C08
import Toodee.Properties.C09
import Toodee.Properties.C10
import Toodee.Properties.C13
import Toodee.Properties.C14
import Toodee.Properties.C15
import Toodee.Properties.C16
import Toodee.Properties.C17
import Toodee.Proofs.RunSpecView
import Toodee.Proofs.RunSpecOwned
import Toodee.Proofs.SpecCells
/-
  C04 — Operations on a mutable view never touch cells outside it (operation level).

  `Properties/C04Frame.lean` says what the two result forms `gather buf (v.mapCells g)` / `v.updCells buf h` mean.  Here the claim
  is closed over the operations themselves: for **every** mutating operation `op : MOp α` (indexed writes, fill, the swap
  family, the copy operations incl. `copy_within`, translate, flips, every sort variant with any — possibly panicking —
  comparator), with **every** argument, valid or not, called on **any** mutable view `v` of a root buffer (`Recv.run` on
  `Recv.vmut v`: the trait defaults, `TooDeeViewMut`'s own `Index*`, `col`, `get_unchecked_row_mut`, `swap_rows`), in both modes:
  * the call never ends in undefined behaviour;
  * if it succeeds, the root buffer keeps its length, every position outside the view's rectangle keeps its content, and the
    view's cells afterwards are exactly the cells the *same call on an owned array holding the same cells* produces
    (`Recv.run` on `Recv.root (v.ownedOf buf)`: `TooDee`'s overrides);
  * if it is rejected (or caller code panics), the same call on the owned array ends the same way.
  Mutable iteration hands out only cells of the view.
-/
namespace Toodee
variable {α : Type}

/-- the owned array holding the same cells as the view (`TooDee::from(view)`, C20_from_view) -/
def VW.ownedOf (v : VW) (buf : List α) : TD α := ⟨v.cellsOf buf, v.numRows, v.numCols⟩

theorem C04_owned_of_inv (v : VW) (buf : List α) (h : v.Inv buf.length) : (v.ownedOf buf).Inv := by
  obtain ⟨hl, _⟩ := v.cellsOf_facts buf h
  refine ⟨hl, h.zero, ?_⟩
  show (v.cellsOf buf).length < WORD
  have := h.area_le; have := h.inside; have := h.word
  omega

/-- the owned copy of a view, seen as a view of its own buffer, is the owned shape -/
private theorem VW.ownedOf_asView (v : VW) (buf : List α) (h : v.Inv buf.length) : (v.ownedOf buf).asView = v.ownedShape := by
  obtain ⟨hl, _⟩ := v.cellsOf_facts buf h
  show (⟨⟨0, (v.cellsOf buf).length⟩, v.numCols, v.numRows, v.numCols⟩ : VW) = _
  rw [hl]; rfl

/-- a call on an owned receiver sees the receiver only through its dimensions (its buffer is the `buf` argument) -/
private theorem Recv.run_root_shape (m : Mode) (lim : Nat) (t t' : TD α) (hR : t.numRows = t'.numRows) (hC : t.numCols = t'.numCols)
    (d : List α) (op : MOp α) : (Recv.root t).run m lim d op = (Recv.root t').run m lim d op := by
  obtain ⟨_, _, _⟩ := t
  obtain ⟨_, _, _⟩ := t'
  simp only at hR hC
  subst hR; subst hC
  rfl

private theorem Recv.runAll_root_shape (m : Mode) (lim : Nat) (t t' : TD α) (hR : t.numRows = t'.numRows)
    (hC : t.numCols = t'.numCols) (ops : List (MOp α)) (d : List α) :
    (Recv.root t).runAll m lim d ops = (Recv.root t').runAll m lim d ops := by
  induction ops generalizing d with
  | nil => rfl
  | cons op ops ih =>
    show ((Recv.root t).run m lim d op >>= fun b => (Recv.root t).runAll m lim b ops)
      = ((Recv.root t').run m lim d op >>= fun b => (Recv.root t').runAll m lim b ops)
    rw [Recv.run_root_shape m lim t t' hR hC d op]
    congr 1
    funext b
    exact ih b

/-- **the Impl-model refines the specification on views**: any operation, any arguments, any view, both modes -/
theorem C04_run_view (m : Mode) (lim : Nat) (v : VW) (buf : List α) (h : v.Inv buf.length) (op : MOp α)
    (hs : op.Sane) (hsrc : op.srcOk) :
    (Recv.vmut v).run m lim buf op = op.spec v lim buf :=
  run_view_spec m lim v buf h op hs hsrc

/-- what the specification means: never `ub`, length kept, everything outside the view untouched -/
theorem C04_spec_frame (lim : Nat) (v : VW) (buf : List α) (h : v.Inv buf.length) (op : MOp α) (hs : op.Sane) :
    op.spec v lim buf ≠ .error .ub ∧ op.spec v lim buf ≠ .error .fuel ∧
    ∀ buf', op.spec v lim buf = .ok buf' → buf'.length = buf.length ∧ ∀ p, v.coord? p = none → buf'[p]? = buf[p]? := by
  have hp := spec_pair lim v buf h op hs
  generalize op.spec v lim buf = res at hp
  generalize op.spec v.ownedShape lim (v.cellsOf buf) = res' at hp
  cases hp with
  | panic => exact ⟨nofun, nofun, nofun⟩
  | perm g hg =>
    obtain ⟨hl, hf, _⟩ := C04_frame_perm v buf h g hg
    refine ⟨nofun, nofun, fun b hb => ?_⟩
    injection hb with hb
    subst hb
    exact ⟨hl, hf⟩
  | upd f f' hff =>
    obtain ⟨hl, hf, _⟩ := C04_frame_upd v buf h f
    refine ⟨nofun, nofun, fun b hb => ?_⟩
    injection hb with hb
    subst hb
    exact ⟨hl, hf⟩

/-- the specification depends on the receiver only through its cells: on the owned copy of the view it gives the owned copy of
    the result, and it rejects exactly the same calls -/
theorem C04_spec_same_cells (lim : Nat) (v : VW) (buf : List α) (h : v.Inv buf.length) (op : MOp α) (hs : op.Sane) :
    (∀ buf', op.spec v lim buf = .ok buf' → op.spec v.ownedShape lim (v.cellsOf buf) = .ok (v.cellsOf buf')) ∧
    (∀ e, op.spec v lim buf = .error e → op.spec v.ownedShape lim (v.cellsOf buf) = .error e) := by
  have hp := spec_pair lim v buf h op hs
  generalize op.spec v lim buf = res at hp
  generalize op.spec v.ownedShape lim (v.cellsOf buf) = res' at hp
  cases hp with
  | panic => exact ⟨nofun, fun e he => he⟩
  | perm g hg =>
    refine ⟨fun b hb => ?_, nofun⟩
    injection hb with hb
    subst hb
    rw [C04_same_effect_perm v buf h g hg]
  | upd f f' hff =>
    refine ⟨fun b hb => ?_, nofun⟩
    injection hb with hb
    subst hb
    rw [C04_same_effect_upd v buf h f]
    exact congrArg Except.ok (VW.updCells_congr v.ownedShape _ f' f (fun c r hc hr => (hff c r hc hr).symm))

/-- **one call on a view** -/
theorem C04_view_op (m : Mode) (lim : Nat) (v : VW) (buf : List α) (h : v.Inv buf.length) (op : MOp α)
    (hs : op.Sane) (hsrc : op.srcOk) :
    (Recv.vmut v).run m lim buf op ≠ .error .ub ∧ (Recv.vmut v).run m lim buf op ≠ .error .fuel ∧
    (∀ buf', (Recv.vmut v).run m lim buf op = .ok buf' →
      buf'.length = buf.length ∧ (∀ p, v.coord? p = none → buf'[p]? = buf[p]?) ∧
      (Recv.root (v.ownedOf buf)).run m lim (v.cellsOf buf) op = .ok (v.cellsOf buf')) ∧
    (∀ e, (Recv.vmut v).run m lim buf op = .error e →
      (Recv.root (v.ownedOf buf)).run m lim (v.cellsOf buf) op = .error e) := by
  have hrun := C04_run_view m lim v buf h op hs hsrc
  have hown := run_owned_spec m lim (v.ownedOf buf) (C04_owned_of_inv v buf h) op hs hsrc
  rw [VW.ownedOf_asView v buf h] at hown
  change (Recv.root (v.ownedOf buf)).run m lim (v.cellsOf buf) op = op.spec v.ownedShape lim (v.cellsOf buf) at hown
  rw [hrun, hown]
  obtain ⟨f1, f2, f3⟩ := C04_spec_frame lim v buf h op hs
  obtain ⟨s1, s2⟩ := C04_spec_same_cells lim v buf h op hs
  exact ⟨f1, f2, fun b hb => ⟨(f3 b hb).1, (f3 b hb).2, s1 b hb⟩, s2⟩

/-- **any sequence of calls on the same view**: frame untouched, cells follow the owned array under the same calls -/
theorem C04_view_ops (m : Mode) (lim : Nat) (v : VW) (buf : List α) (h : v.Inv buf.length) (ops : List (MOp α))
    (hs : ∀ op ∈ ops, op.Sane ∧ op.srcOk) :
    (Recv.vmut v).runAll m lim buf ops ≠ .error .ub ∧ (Recv.vmut v).runAll m lim buf ops ≠ .error .fuel ∧
    (∀ buf', (Recv.vmut v).runAll m lim buf ops = .ok buf' →
      buf'.length = buf.length ∧ (∀ p, v.coord? p = none → buf'[p]? = buf[p]?) ∧
      (Recv.root (v.ownedOf buf)).runAll m lim (v.cellsOf buf) ops = .ok (v.cellsOf buf')) := by
  induction ops generalizing buf with
  | nil =>
    refine ⟨nofun, nofun, fun b hb => ?_⟩
    have hb' : buf = b := by injection hb
    subst hb'
    exact ⟨rfl, fun _ _ => rfl, rfl⟩
  | cons op ops ih =>
    obtain ⟨hsop, hsrc⟩ := hs op (List.mem_cons_self ..)
    obtain ⟨o1, o2, o3, _⟩ := C04_view_op m lim v buf h op hsop hsrc
    have hstep : (Recv.vmut v).runAll m lim buf (op :: ops)
        = ((Recv.vmut v).run m lim buf op >>= fun b => (Recv.vmut v).runAll m lim b ops) := rfl
    cases hr : (Recv.vmut v).run m lim buf op with
    | error e =>
      rw [hstep, hr, err_bind]
      rw [hr] at o1 o2
      exact ⟨o1, o2, nofun⟩
    | ok b =>
      obtain ⟨l1, l2, l3⟩ := o3 b hr
      have hb : v.Inv b.length := by rw [l1]; exact h
      obtain ⟨i1, i2, i3⟩ := ih b hb (fun op' hop' => hs op' (List.mem_cons_of_mem _ hop'))
      rw [hstep, hr, ok_bind]
      refine ⟨i1, i2, fun b' hb' => ?_⟩
      obtain ⟨j1, j2, j3⟩ := i3 b' hb'
      refine ⟨by omega, fun p hp => by rw [j2 p hp, l2 p hp], ?_⟩
      show ((Recv.root (v.ownedOf buf)).run m lim (v.cellsOf buf) op >>= fun b =>
        (Recv.root (v.ownedOf buf)).runAll m lim b ops) = _
      rw [l3, ok_bind, Recv.runAll_root_shape m lim (v.ownedOf buf) (v.ownedOf b) rfl rfl]
      exact j3

/-- … and a sequence that is cut short by a rejected call (or a panic of caller code) is cut short on the owned array by the same
    error -/
theorem C04_view_ops_fail (m : Mode) (lim : Nat) (v : VW) (buf : List α) (h : v.Inv buf.length) (ops : List (MOp α))
    (hs : ∀ op ∈ ops, op.Sane ∧ op.srcOk) (e : Err) (he : (Recv.vmut v).runAll m lim buf ops = .error e) :
    (Recv.root (v.ownedOf buf)).runAll m lim (v.cellsOf buf) ops = .error e := by
  induction ops generalizing buf with
  | nil => cases he
  | cons op ops ih =>
    obtain ⟨hsop, hsrc⟩ := hs op (List.mem_cons_self ..)
    obtain ⟨_, _, o3, o4⟩ := C04_view_op m lim v buf h op hsop hsrc
    have hstep : (Recv.vmut v).runAll m lim buf (op :: ops)
        = ((Recv.vmut v).run m lim buf op >>= fun b => (Recv.vmut v).runAll m lim b ops) := rfl
    show ((Recv.root (v.ownedOf buf)).run m lim (v.cellsOf buf) op >>= fun b =>
      (Recv.root (v.ownedOf buf)).runAll m lim b ops) = _
    cases hr : (Recv.vmut v).run m lim buf op with
    | error e' =>
      rw [hstep, hr, err_bind] at he
      injection he with he
      subst he
      rw [o4 e' hr, err_bind]
    | ok b =>
      obtain ⟨l1, _, l3⟩ := o3 b hr
      have hb : v.Inv b.length := by rw [l1]; exact h
      rw [hstep, hr, ok_bind] at he
      rw [l3, ok_bind, Recv.runAll_root_shape m lim (v.ownedOf buf) (v.ownedOf b) rfl rfl]
      exact ih b hb (fun op' hop' => hs op' (List.mem_cons_of_mem _ hop')) he

/-- nested views: a view of a view is a view of the same root buffer whose cells are cells of the outer view, so everything
    outside the *outer* view is outside the inner one too -/
theorem C04_nested_frame (m : Mode) (v : VW) (n : Nat) (h : v.Inv n) (s e : Nat × Nat) (v' : VW)
    (hv : v.view m s e = .ok v') :
    v'.Inv n ∧ ∀ p, v.coord? p = none → v'.coord? p = none := by
  by_cases hok : (s.1 ≤ e.1 ∧ s.2 ≤ e.2) ∧ (e.1 ≤ v.numCols ∧ e.2 ≤ v.numRows)
  · obtain ⟨v'', e1, _, hinv, hsz, hpos⟩ := C03_view_valid m v n h s e hok.1 hok.2
    have hv' : v'' = v' := by rw [e1] at hv; injection hv
    subst hv'
    refine ⟨hinv, fun p hp => ?_⟩
    cases hq : v''.coord? p with
    | none => rfl
    | some cr =>
      obtain ⟨c, r⟩ := cr
      obtain ⟨he, hc, hr⟩ := VW.coord?_eq_some hq
      obtain ⟨_, hcs, hrs⟩ := viewSize_facts s e
      have hC : (viewSize s e).1 = v''.numCols := by rw [← hsz]
      have hR : (viewSize s e).2 = v''.numRows := by rw [← hsz]
      have hc' : s.1 + c < v.numCols := by have := hcs c (hC ▸ hc); omega
      have hr' : s.2 + r < v.numRows := by have := hrs r (hR ▸ hr); omega
      rw [he, hpos c r hc hr, VW.coord?_pos h hc' hr'] at hp
      cases hp
  · have hd := calcViewDims_panic m s e v.numCols v.numRows v.stride hok
    simp [VW.view, hd] at hv

/-- what mutable iteration hands out are cells of the view: `rows_mut()`, `col_mut(c)` and `cells_mut()` of a view yield only
    positions that are cells of that view (so writes through them stay inside) -/
theorem C04_iter_positions_view (m : Mode) (v : VW) (n : Nat) (h : v.Inv n) :
    (∃ it, v.rows m = .ok it ∧ ∀ w ∈ it.abs v.numRows, ∀ p ∈ w.positions, (v.coord? p).isSome) ∧
    (∀ c, c < v.numCols → ∃ it, v.col m c = .ok it ∧ ∀ p ∈ it.abs v.numRows, (v.coord? p).isSome) ∧
    (∃ it, v.rows m = .ok it ∧ ∀ p ∈ (Flat.new it).abs v.numRows, (v.coord? p).isSome) := by
  refine ⟨?_, ?_, ?_⟩
  · obtain ⟨it, e1, _, habs⟩ := C08_rows_view m v n h
    refine ⟨it, e1, ?_⟩
    intro w hw p hp
    rw [habs] at hw
    obtain ⟨r, hr, rfl⟩ := List.mem_map.1 hw
    simp only [Win.positions, List.mem_map, List.mem_range] at hp
    obtain ⟨c, hc, rfl⟩ := hp
    rw [VW.pos_zero_add, VW.coord?_pos h hc (List.mem_range.1 hr)]
    rfl
  · intro c hc
    obtain ⟨it, e1, _, habs⟩ := (C09_col_view m v n h c (Nat.lt_trans hc h.cols_word)).1 hc
    refine ⟨it, e1, ?_⟩
    intro p hp
    rw [habs] at hp
    obtain ⟨r, hr, rfl⟩ := List.mem_map.1 hp
    rw [VW.coord?_pos h hc (List.mem_range.1 hr)]
    rfl
  · obtain ⟨it, e1, _, habs, _, _⟩ := C10_cells_view m v n h
    refine ⟨it, e1, ?_⟩
    intro p hp
    rw [habs] at hp
    obtain ⟨l, hl, hpl⟩ := List.mem_flatten.1 hp
    obtain ⟨r, hr, rfl⟩ := List.mem_map.1 hl
    obtain ⟨c, hc, rfl⟩ := List.mem_map.1 hpl
    rw [VW.coord?_pos h (List.mem_range.1 hc) (List.mem_range.1 hr)]
    rfl

/-- non-vacuity: fill on the interior window (1,1)-(3,2) of a 4x3 array (stride 4): only the two cells of the window change -/
example : (Recv.vmut ⟨⟨5, 2⟩, 2, 1, 4⟩).run .debug 100 [0, 1, 2, 3, 4, 5, 6, 7, 8, 9, 10, 11] (.fill 77)
    = .ok [0, 1, 2, 3, 4, 77, 77, 7, 8, 9, 10, 11] := by
  rfl

end Toodee
