import Toodee.Properties.C04Frame
import Toodee.Properties.C02
import Toodee.Properties.C08
import Toodee.Properties.C09
import Toodee.Properties.C10
import Toodee.Properties.C13
import Toodee.Properties.C14
import Toodee.Properties.C15
import Toodee.Properties.C16
import Toodee.Properties.C17
/-
  C04 — Operations on a mutable view never touch cells outside it (operation level).

  `Properties/C04Frame.lean` says what the two result forms `gather buf (v.mapCells g)` / `v.updCells buf h` mean.  Here the claim
  is closed over the operations themselves: for **every** mutating operation `op : MOp α` (indexed writes, fill, the swap
  family, the copy operations incl. `copy_within`, translate, flips, every sort variant with any — possibly panicking —
  comparator), with **every** argument, valid or not, called on **any** mutable view `v` of a root buffer (`Recv.run` on
  `Recv.vmut v`: the trait defaults, `TooDeeViewMut`'s own `Index*`, `col`, `get_unchecked_row_mut`, `swap_rows`), in both modes:
  * the call never ends in undefined behaviour;
  * if it succeeds, the root buffer keeps its length, every position outside the view's rectangle keeps its content, and the
    view's cells afterwards are exactly the cells the *same call on an owned array holding the same cells* produces
    (`Recv.run` on `Recv.root (v.ownedOf buf)`: `TooDee`'s overrides);
  * if it is rejected (or caller code panics), the same call on the owned array ends the same way.
  Mutable iteration hands out only cells of the view.
-/
namespace Toodee
variable {α : Type}

/-- the owned array holding the same cells as the view (`TooDee::from(view)`, C20_from_view) -/
def VW.ownedOf (v : VW) (buf : List α) : TD α := ⟨v.cellsOf buf, v.numRows, v.numCols⟩

theorem C04_owned_of_inv (v : VW) (buf : List α) (h : v.Inv buf.length) : (v.ownedOf buf).Inv := by
  sorry

/-- **one call on a view** -/
theorem C04_view_op (m : Mode) (lim : Nat) (v : VW) (buf : List α) (h : v.Inv buf.length) (op : MOp α)
    (hs : op.Sane) (hsrc : op.srcOk) :
    (Recv.vmut v).run m lim buf op ≠ .error .ub ∧ (Recv.vmut v).run m lim buf op ≠ .error .fuel ∧
    (∀ buf', (Recv.vmut v).run m lim buf op = .ok buf' →
      buf'.length = buf.length ∧ (∀ p, v.coord? p = none → buf'[p]? = buf[p]?) ∧
      (Recv.root (v.ownedOf buf)).run m lim (v.cellsOf buf) op = .ok (v.cellsOf buf')) ∧
    (∀ e, (Recv.vmut v).run m lim buf op = .error e →
      (Recv.root (v.ownedOf buf)).run m lim (v.cellsOf buf) op = .error e) := by
  sorry

/-- **any sequence of calls on the same view**: frame untouched, cells follow the owned array under the same calls -/
theorem C04_view_ops (m : Mode) (lim : Nat) (v : VW) (buf : List α) (h : v.Inv buf.length) (ops : List (MOp α))
    (hs : ∀ op ∈ ops, op.Sane ∧ op.srcOk) :
    (Recv.vmut v).runAll m lim buf ops ≠ .error .ub ∧ (Recv.vmut v).runAll m lim buf ops ≠ .error .fuel ∧
    (∀ buf', (Recv.vmut v).runAll m lim buf ops = .ok buf' →
      buf'.length = buf.length ∧ (∀ p, v.coord? p = none → buf'[p]? = buf[p]?) ∧
      (Recv.root (v.ownedOf buf)).runAll m lim (v.cellsOf buf) ops = .ok (v.cellsOf buf')) := by
  sorry

/-- nested views: a view of a view is a view of the same root buffer whose cells are cells of the outer view, so everything
    outside the *outer* view is outside the inner one too -/
theorem C04_nested_frame (m : Mode) (v : VW) (n : Nat) (h : v.Inv n) (s e : Nat × Nat) (v' : VW)
    (hv : v.view m s e = .ok v') :
    v'.Inv n ∧ ∀ p, v.coord? p = none → v'.coord? p = none := by
  sorry

/-- what mutable iteration hands out are cells of the view: `rows_mut()`, `col_mut(c)` and `cells_mut()` of a view yield only
    positions that are cells of that view (so writes through them stay inside) -/
theorem C04_iter_positions_view (m : Mode) (v : VW) (n : Nat) (h : v.Inv n) :
    (∃ it, v.rows m = .ok it ∧ ∀ w ∈ it.abs v.numRows, ∀ p ∈ w.positions, (v.coord? p).isSome) ∧
    (∀ c, c < v.numCols → ∃ it, v.col m c = .ok it ∧ ∀ p ∈ it.abs v.numRows, (v.coord? p).isSome) ∧
    (∃ it, v.rows m = .ok it ∧ ∀ p ∈ (Flat.new it).abs v.numRows, (v.coord? p).isSome) := by
  sorry

/-- non-vacuity: fill on the interior window (1,1)-(3,2) of a 4x3 array (stride 4): only the two cells of the window change -/
example : (Recv.vmut ⟨⟨5, 2⟩, 2, 1, 4⟩).run .debug 100 [0, 1, 2, 3, 4, 5, 6, 7, 8, 9, 10, 11] (.fill 77)
    = .ok [0, 1, 2, 3, 4, 77, 77, 7, 8, 9, 10, 11] := by
  sorry

end Toodee
