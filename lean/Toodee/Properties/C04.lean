import Toodee.Spec.Cells
import Toodee.Proofs.CellsLemmas
/-
  C04 — Operations on a mutable view never touch cells outside it (general part).

  Every in-place operation is proved (C13–C17) to produce `gather buf (v.mapCells g)` (pure permutations: swaps, sorts,
  translate, flips) or `v.updCells buf h` (overwrites: fill, copies, indexed writes).  The theorems here say what those two
  forms mean: positions that are not cells of the view keep their content, and cell `(c,r)` gets exactly the content the
  cell function prescribes — the *same* cell function `g`/`h` as for an owned array (`t.asView`), which is the second
  sentence of the property.
-/
namespace Toodee
variable {α : Type}

/-- positions and coordinates of a view are in bijection -/
theorem C04_coord (v : VW) (n : Nat) (h : v.Inv n) :
    (∀ c r, c < v.numCols → r < v.numRows → v.coord? (v.pos c r) = some (c, r) ∧ v.pos c r < n) ∧
    (∀ p c r, v.coord? p = some (c, r) → p = v.pos c r ∧ c < v.numCols ∧ r < v.numRows) :=
  ⟨fun _ _ hc hr => ⟨VW.coord?_pos h hc hr, VW.pos_lt h hc hr⟩, fun _ _ _ hp => VW.coord?_eq_some hp⟩

/-- a cell permutation of the view: length kept, frame untouched, cell `(c,r)` receives old cell `g (c,r)` -/
theorem C04_frame_perm (v : VW) (buf : List α) (h : v.Inv buf.length) (g : Nat × Nat → Nat × Nat)
    (hg : ∀ c r, c < v.numCols → r < v.numRows → (g (c, r)).1 < v.numCols ∧ (g (c, r)).2 < v.numRows) :
    (gather buf (v.mapCells g)).length = buf.length ∧
    (∀ p, v.coord? p = none → (gather buf (v.mapCells g))[p]? = buf[p]?) ∧
    (∀ c r, c < v.numCols → r < v.numRows →
      (gather buf (v.mapCells g))[v.pos c r]? = buf[v.pos (g (c, r)).1 (g (c, r)).2]?) := by
  have hin : ∀ p, p < buf.length → v.mapCells g p < buf.length := fun _ hp => VW.mapCells_lt h g hg hp
  refine ⟨gather_length buf _ hin, ?_, ?_⟩
  · intro p hp
    rw [gather_getElem? buf _ hin, VW.mapCells_of_none g hp]
    by_cases hlt : p < buf.length
    · rw [if_pos hlt]
    · rw [if_neg hlt]; exact (List.getElem?_eq_none (Nat.not_lt.1 hlt)).symm
  · intro c r hc hr
    rw [gather_getElem?_lt buf _ hin (VW.pos_lt h hc hr), VW.mapCells_pos h g hc hr]

/-- an overwrite of cells of the view: length kept, frame untouched, cell `(c,r)` becomes `h (c,r)` if that is `some` -/
theorem C04_frame_upd (v : VW) (buf : List α) (h : v.Inv buf.length) (f : Nat × Nat → Option α) :
    (v.updCells buf f).length = buf.length ∧
    (∀ p, v.coord? p = none → (v.updCells buf f)[p]? = buf[p]?) ∧
    (∀ c r, c < v.numCols → r < v.numRows →
      (v.updCells buf f)[v.pos c r]? = (match f (c, r) with | some x => some x | none => buf[v.pos c r]?)) :=
  ⟨VW.updCells_length v buf f, fun _ hp => VW.updCells_of_none buf f hp,
    fun _ _ hc hr => VW.updCells_pos buf h f hc hr⟩

/-- two position maps that agree on the buffer give the same result -/
theorem C04_gather_congr (buf : List α) (f g : Nat → Nat) (hfg : ∀ p, p < buf.length → f p = g p) :
    gather buf f = gather buf g :=
  gather_congr buf f g hfg

/-- the identity permutation changes nothing -/
theorem C04_gather_id (v : VW) (buf : List α) : gather buf (v.mapCells id) = buf :=
  gather_eq_self buf _ (fun p _ => VW.mapCells_eq_self id (fun _ _ _ _ => rfl) p)

/-- what mutable iteration hands out are cells of the view: every position yielded by `rows_mut()`, `col_mut(c)`,
    `cells_mut()` on a view is a cell of that view (so writes through them stay inside) -/
theorem C04_iter_positions (v : VW) (n : Nat) (h : v.Inv n) :
    (∀ r, r < v.numRows → ∀ p ∈ (v.rowWin r).positions, ∃ c, c < v.numCols ∧ p = v.pos c r) ∧
    (∀ c r, c < v.numCols → r < v.numRows → v.coord? (v.pos c r) ≠ none) := by
  constructor
  · intro r _ p hp
    simp only [Win.positions, VW.rowWin, List.mem_map, List.mem_range] at hp
    obtain ⟨c, hc, rfl⟩ := hp
    exact ⟨c, hc, VW.pos_zero_add v c r⟩
  · intro c r hc hr
    rw [VW.coord?_pos h hc hr]; simp

end Toodee
