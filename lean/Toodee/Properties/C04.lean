import Toodee.Spec.Cells
/-
  C04 — Operations on a mutable view never touch cells outside it (general part).

  Every in-place operation is proved (C13–C17) to produce `gather buf (v.mapCells g)` (pure permutations: swaps, sorts,
  translate, flips) or `v.updCells buf h` (overwrites: fill, copies, indexed writes).  The theorems here say what those two
  forms mean: positions that are not cells of the view keep their content, and cell `(c,r)` gets exactly the content the
  cell function prescribes — the *same* cell function `g`/`h` as for an owned array (`t.asView`), which is the second
  sentence of the property.
-/
namespace Toodee
variable {α : Type}

/-- positions and coordinates of a view are in bijection -/
theorem C04_coord (v : VW) (n : Nat) (h : v.Inv n) :
    (∀ c r, c < v.numCols → r < v.numRows → v.coord? (v.pos c r) = some (c, r) ∧ v.pos c r < n) ∧
    (∀ p c r, v.coord? p = some (c, r) → p = v.pos c r ∧ c < v.numCols ∧ r < v.numRows) := by
  sorry

/-- a cell permutation of the view: length kept, frame untouched, cell `(c,r)` receives old cell `g (c,r)` -/
theorem C04_frame_perm (v : VW) (buf : List α) (h : v.Inv buf.length) (g : Nat × Nat → Nat × Nat)
    (hg : ∀ c r, c < v.numCols → r < v.numRows → (g (c, r)).1 < v.numCols ∧ (g (c, r)).2 < v.numRows) :
    (gather buf (v.mapCells g)).length = buf.length ∧
    (∀ p, v.coord? p = none → (gather buf (v.mapCells g))[p]? = buf[p]?) ∧
    (∀ c r, c < v.numCols → r < v.numRows →
      (gather buf (v.mapCells g))[v.pos c r]? = buf[v.pos (g (c, r)).1 (g (c, r)).2]?) := by
  sorry

/-- an overwrite of cells of the view: length kept, frame untouched, cell `(c,r)` becomes `h (c,r)` if that is `some` -/
theorem C04_frame_upd (v : VW) (buf : List α) (h : v.Inv buf.length) (f : Nat × Nat → Option α) :
    (v.updCells buf f).length = buf.length ∧
    (∀ p, v.coord? p = none → (v.updCells buf f)[p]? = buf[p]?) ∧
    (∀ c r, c < v.numCols → r < v.numRows →
      (v.updCells buf f)[v.pos c r]? = (match f (c, r) with | some x => some x | none => buf[v.pos c r]?)) := by
  sorry

/-- two position maps that agree on the buffer give the same result -/
theorem C04_gather_congr (buf : List α) (f g : Nat → Nat) (hfg : ∀ p, p < buf.length → f p = g p) :
    gather buf f = gather buf g := by
  sorry

/-- the identity permutation changes nothing -/
theorem C04_gather_id (v : VW) (buf : List α) : gather buf (v.mapCells id) = buf := by
  sorry

/-- what mutable iteration hands out are cells of the view: every position yielded by `rows_mut()`, `col_mut(c)`,
    `cells_mut()` on a view is a cell of that view (so writes through them stay inside) -/
theorem C04_iter_positions (v : VW) (n : Nat) (h : v.Inv n) :
    (∀ r, r < v.numRows → ∀ p ∈ (v.rowWin r).positions, ∃ c, c < v.numCols ∧ p = v.pos c r) ∧
    (∀ c r, c < v.numCols → r < v.numRows → v.coord? (v.pos c r) ≠ none) := by
  sorry

end Toodee
