import Toodee.Spec.Grid
import Toodee.Spec.IterAbs
import Toodee.Properties.C09
import Toodee.Proofs.RemoveLemmas
/-
  C07 — Removing a row or column yields it in order and closes the gap.

  `remove_row` wraps `Vec::drain` (a std component with specified behaviour): the drain holds exactly the removed row;
  consuming it from either end only shortens `items`; dropping it at any stage leaves the original without that row.
  `remove_col` returns a strided cursor (`Col`, property C09) over the hidden buffer; dropping the `DrainCol` at any stage
  of consumption compacts the buffer to the original without that column.  Removing the last remaining line leaves `(0,0)`.
  Out-of-range indices panic, `pop_*` on an empty array returns `None`.
-/
namespace Toodee
variable {α : Type}

/-- `remove_row(i)`: the drain holds row `i`; `pre`/`tail` are the cells before/after it -/
theorem C07_remove_row (m : Mode) (t : TD α) (h : t.Inv) (i : Nat) (hi : i < t.numRows) :
    ∃ d, t.removeRow m i = .ok d ∧
      d.items = (t.data.drop (i * t.numCols)).take t.numCols ∧
      d.pre = t.data.take (i * t.numCols) ∧ d.tail = t.data.drop ((i + 1) * t.numCols) ∧
      d.finalRows = t.numRows - 1 ∧ d.finalCols = (if t.numRows = 1 then 0 else t.numCols) := by
  have hend : i * t.numCols + t.numCols ≤ t.numCols * t.numRows := by
    have h1 := Nat.mul_le_mul_right t.numCols (Nat.succ_le_of_lt hi)
    rw [Nat.succ_mul, Nat.mul_comm t.numRows] at h1
    exact h1
  have hl := h.len
  have hw := h.word
  have e1 : umul m i t.numCols = .ok (i * t.numCols) := umul_ok m _ _ (by omega)
  have e2 : usub m t.numRows 1 = .ok (t.numRows - 1) := usub_ok m _ _ (by omega)
  have e3 : uadd m (i * t.numCols) t.numCols = .ok (i * t.numCols + t.numCols) := uadd_ok m _ _ (by omega)
  have hcond : i * t.numCols ≤ i * t.numCols + t.numCols ∧ i * t.numCols + t.numCols ≤ t.data.length :=
    ⟨by omega, by omega⟩
  have hfc : (t.numRows - 1 = 0) = (t.numRows = 1) := propext ⟨fun _ => by omega, fun _ => by omega⟩
  refine ⟨_, ?_, ?_⟩
  · unfold TD.removeRow
    rw [if_neg (by simpa using hi)]
    simp only [pure_eq, ok_bind, e1, e2, e3]
    rw [if_neg (by simpa using hcond)]
    simp only [ok_bind]
  · refine ⟨?_, rfl, ?_, rfl, ?_⟩
    · show (t.data.drop (i * t.numCols)).take (i * t.numCols + t.numCols - i * t.numCols) = _
      rw [Nat.add_sub_cancel_left]
    · show t.data.drop (i * t.numCols + t.numCols) = _
      rw [Nat.succ_mul]
    · show (if t.numRows - 1 = 0 then 0 else t.numCols) = _
      simp only [hfc]

/-- the drain is an ideal double-ended sequence over the removed row, and consuming it changes nothing else -/
theorem C07_drain_row_steps (d : DrainRow α) :
    (d.next.1 = (Seq.next d.items).1 ∧ d.next.2 = { d with items := (Seq.next d.items).2 }) ∧
    (d.nextBack.1 = (Seq.nextBack d.items).1 ∧ d.nextBack.2 = { d with items := (Seq.nextBack d.items).2 }) ∧
    d.len = d.items.length := by
  refine ⟨?_, ?_, rfl⟩
  · cases d with
    | mk items pre tail lr lc fr fc =>
      cases items <;> simp [DrainRow.next, Seq.next]
  · cases d with
    | mk items pre tail lr lc fr fc =>
      unfold DrainRow.nextBack Seq.nextBack
      cases hx : items.getLast? with
      | none =>
        have : items = [] := List.getLast?_eq_none_iff.1 hx
        subst this
        simp
      | some x => simp [hx]

/-- dropping the drain (whatever is left in `items`): the original without row `i`, invariant kept, rest dropped -/
theorem C07_remove_row_drop (m : Mode) (t : TD α) (h : t.Inv) (i : Nat) (hi : i < t.numRows)
    (d : DrainRow α) (hd : t.removeRow m i = .ok d) (items' : List α) :
    let r := ({ d with items := items' } : DrainRow α).drop
    r.2 = items' ∧ r.1.Inv ∧
    r.1.data = t.data.take (i * t.numCols) ++ t.data.drop ((i + 1) * t.numCols) ∧
    r.1.numRows = t.numRows - 1 ∧ r.1.numCols = (if t.numRows = 1 then 0 else t.numCols) ∧
    r.1.grid = t.grid.eraseIdx i := by
  obtain ⟨d', hd', _, h2, h3, h4, h5⟩ := C07_remove_row m t h i hi
  rw [hd] at hd'
  have hdd : d = d' := by injection hd'
  subst hdd
  have hl := h.len
  have hw := h.word
  have hend : i * t.numCols + t.numCols ≤ t.numCols * t.numRows := by
    have h1 := Nat.mul_le_mul_right t.numCols (Nat.succ_le_of_lt hi)
    rw [Nat.succ_mul, Nat.mul_comm t.numRows] at h1
    exact h1
  have hdata : (d.pre ++ d.tail).length = t.numCols * t.numRows - t.numCols := by
    rw [h2, h3, List.length_append, List.length_take, List.length_drop, Nat.succ_mul]
    omega
  have hCpos : 0 < t.numCols := by
    have := h.zero
    omega
  show (items' = items' ∧ TD.Inv ⟨d.pre ++ d.tail, d.finalRows, d.finalCols⟩ ∧
    d.pre ++ d.tail = _ ∧ d.finalRows = _ ∧ d.finalCols = _ ∧
    toRows d.finalCols (d.pre ++ d.tail) = _)
  refine ⟨rfl, ?_, by rw [h2, h3], h4, h5, ?_⟩
  · refine ⟨?_, ?_, ?_⟩
    · show (d.pre ++ d.tail).length = d.finalCols * d.finalRows
      rw [hdata, h4, h5]
      by_cases hR : t.numRows = 1
      · simp [hR]
      · rw [if_neg hR, Nat.mul_sub_one]
    · show d.finalCols = 0 ↔ d.finalRows = 0
      rw [h4, h5]
      by_cases hR : t.numRows = 1
      · simp [hR]
      · rw [if_neg hR]
        omega
    · show (d.pre ++ d.tail).length < WORD
      omega
  · rw [h5, h2, h3]
    by_cases hR : t.numRows = 1
    · have hg : t.grid.length = 1 := by rw [rl_grid_length t h, hR]
      have hi0 : i = 0 := by omega
      subst hi0
      rw [if_pos hR, rl_toRows_zero]
      match hgm : t.grid, hg with
      | [ρ], _ => rfl
    · rw [if_neg hR]
      exact rl_toRows_eraseRow hCpos t.numRows t.data hl i

theorem C07_remove_row_reject (m : Mode) (t : TD α) (i : Nat) (hi : ¬ i < t.numRows) :
    t.removeRow m i = .error .panic := by
  unfold TD.removeRow
  rw [if_pos hi]
  rfl

theorem C07_pop_row (m : Mode) (t : TD α) (h : t.Inv) :
    (t.numRows = 0 → t.popRow m = .ok none) ∧
    (t.numRows ≠ 0 → t.popRow m = (t.removeRow m (t.numRows - 1)).map some) := by
  constructor
  · intro h0
    simp [TD.popRow, h0]
  · intro h0
    unfold TD.popRow
    rw [if_pos h0, usub_ok m _ _ (by omega), ok_bind]
    cases t.removeRow m (t.numRows - 1) <;> rfl

/-- `remove_col(i)`: the cursor stands for the cells of column `i`, top to bottom -/
theorem C07_remove_col (m : Mode) (t : TD α) (h : t.Inv) (i : Nat) (hi : i < t.numCols) :
    ∃ d, t.removeCol m i = .ok d ∧ d.buf = t.data ∧ d.col = i ∧ d.numCols = t.numCols ∧ d.numRows = t.numRows ∧
      d.taken = [] ∧ d.iter.WF t.numRows t.data.length ∧
      d.iter.abs t.numRows = (List.range t.numRows).map fun r => t.pos i r := by
  sorry

/-- `DrainCol::next` / `next_back`: move out the cell the column cursor yields -/
theorem C07_drain_col_next (m : Mode) (d : DrainCol α) (k : Nat) (hwf : d.iter.WF k d.buf.length) :
    (∃ d', d.next = .ok (((Seq.next (d.iter.abs k)).1).bind (d.buf[·]?), d') ∧
        d'.iter.WF (k - 1) d.buf.length ∧ d'.iter.abs (k - 1) = (Seq.next (d.iter.abs k)).2 ∧
        d'.buf = d.buf ∧ d'.col = d.col ∧ d'.numCols = d.numCols ∧ d'.numRows = d.numRows) ∧
    (∃ d', d.nextBack m = .ok (((Seq.nextBack (d.iter.abs k)).1).bind (d.buf[·]?), d') ∧
        d'.iter.WF (k - 1) d.buf.length ∧ d'.iter.abs (k - 1) = (Seq.nextBack (d.iter.abs k)).2 ∧
        d'.buf = d.buf ∧ d'.col = d.col ∧ d'.numCols = d.numCols ∧ d'.numRows = d.numRows) ∧
    d.len m = .ok k := by
  sorry

/-- dropping a `DrainCol` at any stage of consumption (cursor with `k` cells left): the remaining column cells are dropped,
    the buffer is compacted to the original without column `i`, the invariant holds -/
theorem C07_remove_col_drop (m : Mode) (t : TD α) (h : t.Inv) (i : Nat) (hi : i < t.numCols)
    (d : DrainCol α) (hb : d.buf = t.data) (hc : d.col = i) (hnc : d.numCols = t.numCols) (hnr : d.numRows = t.numRows)
    (k : Nat) (hwf : d.iter.WF k t.data.length) :
    ∃ t' dropped, d.drop m = .ok (t', dropped) ∧ t'.Inv ∧
      dropped = (d.iter.abs k).filterMap (t.data[·]?) ∧
      t'.data = (t.grid.map fun ρ => ρ.eraseIdx i).flatten ∧
      t'.numCols = t.numCols - 1 ∧ t'.numRows = (if t.numCols = 1 then 0 else t.numRows) ∧
      t'.grid = (if t.numCols = 1 then [] else t.grid.map fun ρ => ρ.eraseIdx i) := by
  sorry

theorem C07_remove_col_reject (m : Mode) (t : TD α) (i : Nat) (hi : ¬ i < t.numCols) :
    t.removeCol m i = .error .panic := by
  unfold TD.removeCol
  rw [if_pos hi]
  rfl

theorem C07_pop_col (m : Mode) (t : TD α) (h : t.Inv) :
    (t.numCols = 0 → t.popCol m = .ok none) ∧
    (t.numCols ≠ 0 → t.popCol m = (t.removeCol m (t.numCols - 1)).map some) := by
  constructor
  · intro h0
    simp [TD.popCol, h0]
  · intro h0
    unfold TD.popCol
    rw [if_pos h0, usub_ok m _ _ (by omega), ok_bind]
    cases t.removeCol m (t.numCols - 1) <;> rfl

/-- non-vacuity: remove column 1 of a 3x2 array, take one item from the back, drop -/
example : (do let d ← TD.removeCol .debug (⟨[1, 2, 3, 4, 5, 6], 2, 3⟩ : TD Nat) 1
              let (x, d) ← d.nextBack .debug
              let (t', dropped) ← d.drop .debug
              pure (x, t', dropped)) = .ok (some 5, ⟨[1, 3, 4, 6], 2, 2⟩, [2]) := by rfl

end Toodee
