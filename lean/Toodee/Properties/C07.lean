import Toodee.Spec.Grid
import Toodee.Spec.IterAbs
import Toodee.Properties.C09
import Toodee.Proofs.RemoveLemmas
import Toodee.Proofs.DrainRunLemmas
/-
  C07 — Removing a row or column yields it in order and closes the gap.

  `remove_row` wraps `Vec::drain` (a std component with specified behaviour): the drain holds exactly the removed row;
  consuming it from either end only shortens `items`; dropping it at any stage leaves the original without that row.
  `remove_col` returns a strided cursor (`Col`, property C09) over the hidden buffer; dropping the `DrainCol` at any stage
  of consumption compacts the buffer to the original without that column.  Removing the last remaining line leaves `(0,0)`.
  Out-of-range indices panic, `pop_*` on an empty array returns `None`.
-/
namespace Toodee
variable {α : Type}

/-- `remove_row(i)`: the drain holds row `i`; `pre`/`tail` are the cells before/after it -/
theorem C07_remove_row (m : Mode) (t : TD α) (h : t.Inv) (i : Nat) (hi : i < t.numRows) :
    ∃ d, t.removeRow m i = .ok d ∧
      d.items = (t.data.drop (i * t.numCols)).take t.numCols ∧
      d.pre = t.data.take (i * t.numCols) ∧ d.tail = t.data.drop ((i + 1) * t.numCols) ∧
      d.finalRows = t.numRows - 1 ∧ d.finalCols = (if t.numRows = 1 then 0 else t.numCols) := by
  have hend : i * t.numCols + t.numCols ≤ t.numCols * t.numRows := by
    have h1 := Nat.mul_le_mul_right t.numCols (Nat.succ_le_of_lt hi)
    rw [Nat.succ_mul, Nat.mul_comm t.numRows] at h1
    exact h1
  have hl := h.len
  have hw := h.word
  have e1 : umul m i t.numCols = .ok (i * t.numCols) := umul_ok m _ _ (by omega)
  have e2 : usub m t.numRows 1 = .ok (t.numRows - 1) := usub_ok m _ _ (by omega)
  have e3 : uadd m (i * t.numCols) t.numCols = .ok (i * t.numCols + t.numCols) := uadd_ok m _ _ (by omega)
  have hcond : i * t.numCols ≤ i * t.numCols + t.numCols ∧ i * t.numCols + t.numCols ≤ t.data.length :=
    ⟨by omega, by omega⟩
  have hfc : (t.numRows - 1 = 0) = (t.numRows = 1) := propext ⟨fun _ => by omega, fun _ => by omega⟩
  refine ⟨{ items := (t.data.drop (i * t.numCols)).take (i * t.numCols + t.numCols - i * t.numCols),
            pre := t.data.take (i * t.numCols), tail := t.data.drop (i * t.numCols + t.numCols),
            leakRows := i, leakCols := if i = 0 then 0 else t.numCols,
            finalRows := t.numRows - 1, finalCols := if t.numRows - 1 = 0 then 0 else t.numCols }, ?_, ?_⟩
  · unfold TD.removeRow
    rw [if_neg (by simpa using hi)]
    simp only [pure_eq, ok_bind, e1, e2, e3]
    rw [if_neg (by simpa using hcond)]
  · refine ⟨?_, rfl, ?_, rfl, ?_⟩
    · show (t.data.drop (i * t.numCols)).take (i * t.numCols + t.numCols - i * t.numCols) = _
      rw [Nat.add_sub_cancel_left]
    · show t.data.drop (i * t.numCols + t.numCols) = _
      rw [Nat.succ_mul]
    · show (if t.numRows - 1 = 0 then 0 else t.numCols) = _
      simp only [hfc]

/-- the drain is an ideal double-ended sequence over the removed row, and consuming it changes nothing else -/
theorem C07_drain_row_steps (d : DrainRow α) :
    (d.next.1 = (Seq.next d.items).1 ∧ d.next.2 = { d with items := (Seq.next d.items).2 }) ∧
    (d.nextBack.1 = (Seq.nextBack d.items).1 ∧ d.nextBack.2 = { d with items := (Seq.nextBack d.items).2 }) ∧
    d.len = d.items.length := by
  refine ⟨?_, ?_, rfl⟩
  · cases d with
    | mk items pre tail lr lc fr fc =>
      cases items <;> simp [DrainRow.next, Seq.next]
  · cases d with
    | mk items pre tail lr lc fr fc =>
      unfold DrainRow.nextBack Seq.nextBack
      cases hx : items.getLast? with
      | none =>
        have : items = [] := List.getLast?_eq_none_iff.1 hx
        subst this
        simp
      | some x => simp

/-- dropping the drain (whatever is left in `items`): the original without row `i`, invariant kept, rest dropped -/
theorem C07_remove_row_drop (m : Mode) (t : TD α) (h : t.Inv) (i : Nat) (hi : i < t.numRows)
    (d : DrainRow α) (hd : t.removeRow m i = .ok d) (items' : List α) :
    let r := ({ d with items := items' } : DrainRow α).drop
    r.2 = items' ∧ r.1.Inv ∧
    r.1.data = t.data.take (i * t.numCols) ++ t.data.drop ((i + 1) * t.numCols) ∧
    r.1.numRows = t.numRows - 1 ∧ r.1.numCols = (if t.numRows = 1 then 0 else t.numCols) ∧
    r.1.grid = t.grid.eraseIdx i := by
  obtain ⟨d', hd', _, h2, h3, h4, h5⟩ := C07_remove_row m t h i hi
  rw [hd] at hd'
  have hdd : d = d' := by injection hd'
  subst hdd
  have hl := h.len
  have hw := h.word
  have hend : i * t.numCols + t.numCols ≤ t.numCols * t.numRows := by
    have h1 := Nat.mul_le_mul_right t.numCols (Nat.succ_le_of_lt hi)
    rw [Nat.succ_mul, Nat.mul_comm t.numRows] at h1
    exact h1
  have hdata : (d.pre ++ d.tail).length = t.numCols * t.numRows - t.numCols := by
    rw [h2, h3, List.length_append, List.length_take, List.length_drop, Nat.succ_mul]
    omega
  have hCpos : 0 < t.numCols := by
    have := h.zero
    omega
  show (items' = items' ∧ TD.Inv ⟨d.pre ++ d.tail, d.finalRows, d.finalCols⟩ ∧
    d.pre ++ d.tail = _ ∧ d.finalRows = _ ∧ d.finalCols = _ ∧
    toRows d.finalCols (d.pre ++ d.tail) = _)
  refine ⟨rfl, ?_, by rw [h2, h3], h4, h5, ?_⟩
  · refine ⟨?_, ?_, ?_⟩
    · show (d.pre ++ d.tail).length = d.finalCols * d.finalRows
      rw [hdata, h4, h5]
      by_cases hR : t.numRows = 1
      · simp [hR]
      · rw [if_neg hR, Nat.mul_sub_one]
    · show d.finalCols = 0 ↔ d.finalRows = 0
      rw [h4, h5]
      by_cases hR : t.numRows = 1
      · simp [hR]
      · rw [if_neg hR]
        omega
    · show (d.pre ++ d.tail).length < WORD
      omega
  · rw [h5, h2, h3]
    by_cases hR : t.numRows = 1
    · have hg : t.grid.length = 1 := by rw [rl_grid_length t h, hR]
      have hi0 : i = 0 := by omega
      subst hi0
      rw [if_pos hR, rl_toRows_zero]
      match hgm : t.grid, hg with
      | [ρ], _ => rfl
    · rw [if_neg hR]
      exact rl_toRows_eraseRow hCpos t.numRows t.data hl i

theorem C07_remove_row_reject (m : Mode) (t : TD α) (i : Nat) (hi : ¬ i < t.numRows) :
    t.removeRow m i = .error .panic := by
  unfold TD.removeRow
  rw [if_pos hi]
  rfl

theorem C07_pop_row (m : Mode) (t : TD α) (h : t.Inv) :
    (t.numRows = 0 → t.popRow m = .ok none) ∧
    (t.numRows ≠ 0 → t.popRow m = (t.removeRow m (t.numRows - 1)).map some) := by
  have _ := h
  constructor
  · intro h0
    simp [TD.popRow, h0]
  · intro h0
    unfold TD.popRow
    rw [if_pos h0, usub_ok m _ _ (by omega), ok_bind]
    cases t.removeRow m (t.numRows - 1) <;> rfl

/-- `remove_col(i)`: the cursor stands for the cells of column `i`, top to bottom -/
theorem C07_remove_col (m : Mode) (t : TD α) (h : t.Inv) (i : Nat) (hi : i < t.numCols) :
    ∃ d, t.removeCol m i = .ok d ∧ d.buf = t.data ∧ d.col = i ∧ d.numCols = t.numCols ∧ d.numRows = t.numRows ∧
      d.taken = [] ∧ d.iter.WF t.numRows t.data.length ∧
      d.iter.abs t.numRows = (List.range t.numRows).map fun r => t.pos i r := by
  have hl := h.len
  have hw := h.word
  have hRpos : 0 < t.numRows := by
    have := h.zero
    omega
  have hCR : t.numCols * t.numRows = (t.numRows - 1) * t.numCols + t.numCols := by
    obtain ⟨r, hr⟩ : ∃ r, t.numRows = r + 1 := ⟨t.numRows - 1, by omega⟩
    rw [hr, Nat.mul_comm, Nat.succ_mul, Nat.add_sub_cancel]
  have e1 : usub m t.data.length t.numCols = .ok (t.data.length - t.numCols) := usub_ok m _ _ (by omega)
  have e2 : uadd m (t.data.length - t.numCols) 1 = .ok (t.data.length - t.numCols + 1) :=
    uadd_ok m _ _ (by omega)
  have e3 : usub m t.numCols 1 = .ok (t.numCols - 1) := usub_ok m _ _ (by omega)
  have hC1 : 1 + (t.numCols - 1) = t.numCols := by omega
  refine ⟨{ iter := ⟨⟨i, t.data.length - t.numCols + 1⟩, t.numCols - 1⟩, col := i, numCols := t.numCols,
            numRows := t.numRows, buf := t.data }, ?_, rfl, rfl, rfl, rfl, rfl, ?_, ?_⟩
  · unfold TD.removeCol
    rw [if_neg (by simpa using hi)]
    simp only [pure_eq, ok_bind, e1, e2, e3]
    rw [if_neg (Decidable.not_not.2 (by omega))]
  · refine ⟨?_, ?_, ?_, hw⟩
    · show t.data.length - t.numCols + 1 = if t.numRows = 0 then 0 else (t.numRows - 1) * (1 + (t.numCols - 1)) + 1
      rw [if_neg (by omega), hC1]
      omega
    · show i + (t.data.length - t.numCols + 1) ≤ t.data.length
      omega
    · show 1 + (t.numCols - 1) < WORD
      have : t.numCols * 1 ≤ t.numCols * t.numRows := Nat.mul_le_mul_left _ hRpos
      omega
  · show (List.range t.numRows).map (fun j => i + j * (1 + (t.numCols - 1))) = _
    rw [hC1]
    apply List.map_congr_left
    intro r _
    show i + r * t.numCols = r * t.numCols + i
    omega

/-- `DrainCol::next` / `next_back`: move out the cell the column cursor yields -/
theorem C07_drain_col_next (m : Mode) (d : DrainCol α) (k : Nat) (hwf : d.iter.WF k d.buf.length) :
    (∃ d', d.next = .ok (((Seq.next (d.iter.abs k)).1).bind (d.buf[·]?), d') ∧
        d'.iter.WF (k - 1) d.buf.length ∧ d'.iter.abs (k - 1) = (Seq.next (d.iter.abs k)).2 ∧
        d'.buf = d.buf ∧ d'.col = d.col ∧ d'.numCols = d.numCols ∧ d'.numRows = d.numRows) ∧
    (∃ d', d.nextBack m = .ok (((Seq.nextBack (d.iter.abs k)).1).bind (d.buf[·]?), d') ∧
        d'.iter.WF (k - 1) d.buf.length ∧ d'.iter.abs (k - 1) = (Seq.nextBack (d.iter.abs k)).2 ∧
        d'.buf = d.buf ∧ d'.col = d.col ∧ d'.numCols = d.numCols ∧ d'.numRows = d.numRows) ∧
    d.len m = .ok k := by
  have _ := m
  have hlt := rl_col_abs_lt d.iter k _ hwf
  refine ⟨?_, ?_, C09_len m d.iter k _ hwf⟩
  · obtain ⟨it', hn, hwf', habs⟩ := C09_next d.iter k _ hwf
    rcases hx : (Seq.next (d.iter.abs k)).1 with _ | p
    · rw [hx] at hn
      refine ⟨{ d with iter := it' }, ?_, hwf', habs, rfl, rfl, rfl, rfl⟩
      unfold DrainCol.next
      rw [hn]
      rfl
    · rw [hx] at hn
      have hp : p < d.buf.length := hlt p (List.mem_of_head? hx)
      refine ⟨{ d with iter := it', taken := p :: d.taken }, ?_, hwf', habs, rfl, rfl, rfl, rfl⟩
      unfold DrainCol.next
      rw [hn]
      simp only [ok_bind, rl_readCell_ok d.buf p hp, pure_eq, Option.bind_some,
        List.getElem?_eq_getElem hp]
  · obtain ⟨it', hn, hwf', habs⟩ := C09_next_back m d.iter k _ hwf
    rcases hx : (Seq.nextBack (d.iter.abs k)).1 with _ | p
    · rw [hx] at hn
      refine ⟨{ d with iter := it' }, ?_, hwf', habs, rfl, rfl, rfl, rfl⟩
      unfold DrainCol.nextBack
      rw [hn]
      rfl
    · rw [hx] at hn
      have hp : p < d.buf.length := hlt p (List.mem_of_getLast? hx)
      refine ⟨{ d with iter := it', taken := p :: d.taken }, ?_, hwf', habs, rfl, rfl, rfl, rfl⟩
      unfold DrainCol.nextBack
      rw [hn]
      simp only [ok_bind, rl_readCell_ok d.buf p hp, pure_eq, Option.bind_some,
        List.getElem?_eq_getElem hp]

/-- dropping a `DrainCol` at any stage of consumption (cursor with `k` cells left): the remaining column cells are dropped,
    the buffer is compacted to the original without column `i`, the invariant holds -/
theorem C07_remove_col_drop (m : Mode) (t : TD α) (h : t.Inv) (i : Nat) (hi : i < t.numCols)
    (d : DrainCol α) (hb : d.buf = t.data) (hc : d.col = i) (hnc : d.numCols = t.numCols) (hnr : d.numRows = t.numRows)
    (k : Nat) (hwf : d.iter.WF k t.data.length) :
    ∃ t' dropped, d.drop m = .ok (t', dropped) ∧ t'.Inv ∧
      dropped = (d.iter.abs k).filterMap (t.data[·]?) ∧
      t'.data = (t.grid.map fun ρ => ρ.eraseIdx i).flatten ∧
      t'.numCols = t.numCols - 1 ∧ t'.numRows = (if t.numCols = 1 then 0 else t.numRows) ∧
      t'.grid = (if t.numCols = 1 then [] else t.grid.map fun ρ => ρ.eraseIdx i) := by
  have hl := h.len
  have hw := h.word
  have hRpos : 0 < t.numRows := by
    have := h.zero
    omega
  have hglen := rl_grid_length t h
  have hgne : t.grid ≠ [] := by
    intro h0
    rw [h0] at hglen
    simp at hglen
    omega
  -- the compaction
  obtain ⟨buf, src, dest, J, hloop, hmm, hJ⟩ := rl_compact_total hi t.grid (rl_grid_row_length t) hgne
  rw [rl_grid_flatten t h, hglen] at hloop
  -- exhausting the cursor
  have hcollect : d.iter.collect (d.iter.v.len + 2) = .ok (d.iter.abs k) :=
    C09_fold d.iter k _ hwf _ (by have := rl_col_len_ge d.iter k _ hwf; omega)
  have hread := rl_mapM_readCell t.data (d.iter.abs k) (rl_col_abs_lt d.iter k _ hwf)
  -- the compacted cells
  have hXlen : ((t.grid.map fun ρ => ρ.eraseIdx i).flatten).length = (t.numCols - 1) * t.numRows := by
    rw [rl_length_flatten_uniform (c := t.numCols - 1), List.length_map, hglen]
    intro ρ hρ
    obtain ⟨ρ0, hρ0, rfl⟩ := List.mem_map.1 hρ
    rw [List.length_eraseIdx_of_lt (by rw [rl_grid_row_length t ρ0 hρ0]; exact hi), rl_grid_row_length t ρ0 hρ0]
  have hle : (t.numCols - 1) * t.numRows ≤ t.numCols * t.numRows := Nat.mul_le_mul_right _ (by omega)
  have hnl : (t.numCols - 1) * (if t.numCols - 1 = 0 then 0 else t.numRows) = (t.numCols - 1) * t.numRows := by
    by_cases hc1 : t.numCols - 1 = 0
    · simp [hc1]
    · rw [if_neg hc1]
  have e1 : usub m t.numCols 1 = .ok (t.numCols - 1) := usub_ok m _ _ (by omega)
  have e2 : usub m t.numCols i = .ok (t.numCols - i) := usub_ok m _ _ (by omega)
  have e3 : usub m (t.numCols - i) 1 = .ok (t.numCols - i - 1) := usub_ok m _ _ (by omega)
  have e4 : umul m (t.numCols - 1) (if t.numCols - 1 = 0 then 0 else t.numRows)
      = .ok ((t.numCols - 1) * t.numRows) := by
    rw [umul_ok m _ _ (by rw [hnl]; omega), hnl]
  have hc1 : (t.numCols - 1 = 0) = (t.numCols = 1) := propext ⟨fun _ => by omega, fun _ => by omega⟩
  have htake : ((t.grid.map fun ρ => ρ.eraseIdx i).flatten ++ J).take ((t.numCols - 1) * t.numRows)
      = (t.grid.map fun ρ => ρ.eraseIdx i).flatten := List.take_left' hXlen
  refine ⟨⟨(t.grid.map fun ρ => ρ.eraseIdx i).flatten, if t.numCols - 1 = 0 then 0 else t.numRows, t.numCols - 1⟩,
    (d.iter.abs k).filterMap (t.data[·]?), ?_, ?_, rfl, rfl, rfl, ?_, ?_⟩
  · unfold DrainCol.drop
    rw [hcollect, ok_bind, hb, hread, ok_bind, hnc, hc, hnr]
    simp only [ok_bind, pure_eq, e1, hloop, e2, e3, hmm, e4]
    rw [if_neg (Decidable.not_not.2 (by rw [List.length_append, hXlen]; omega)), htake]
  · refine ⟨?_, ?_, ?_⟩
    · show ((t.grid.map fun ρ => ρ.eraseIdx i).flatten).length = _
      rw [hXlen]
      exact hnl.symm
    · show t.numCols - 1 = 0 ↔ (if t.numCols - 1 = 0 then 0 else t.numRows) = 0
      by_cases hc0 : t.numCols - 1 = 0
      · simp [hc0]
      · rw [if_neg hc0]
        omega
    · show ((t.grid.map fun ρ => ρ.eraseIdx i).flatten).length < WORD
      omega
  · show (if t.numCols - 1 = 0 then 0 else t.numRows) = _
    simp only [hc1]
  · show toRows (t.numCols - 1) ((t.grid.map fun ρ => ρ.eraseIdx i).flatten) = _
    by_cases hc0 : t.numCols = 1
    · rw [if_pos hc0, hc0]
      exact rl_toRows_zero _
    · rw [if_neg hc0]
      apply rl_toRows_flatten (by omega)
      intro ρ hρ
      obtain ⟨ρ0, hρ0, rfl⟩ := List.mem_map.1 hρ
      rw [List.length_eraseIdx_of_lt (by rw [rl_grid_row_length t ρ0 hρ0]; exact hi), rl_grid_row_length t ρ0 hρ0]

theorem C07_remove_col_reject (m : Mode) (t : TD α) (i : Nat) (hi : ¬ i < t.numCols) :
    t.removeCol m i = .error .panic := by
  unfold TD.removeCol
  rw [if_pos hi]
  rfl

theorem C07_pop_col (m : Mode) (t : TD α) (h : t.Inv) :
    (t.numCols = 0 → t.popCol m = .ok none) ∧
    (t.numCols ≠ 0 → t.popCol m = (t.removeCol m (t.numCols - 1)).map some) := by
  have _ := h
  constructor
  · intro h0
    simp [TD.popCol, h0]
  · intro h0
    unfold TD.popCol
    rw [if_pos h0, usub_ok m _ _ (by omega), ok_bind]
    cases t.removeCol m (t.numCols - 1) <;> rfl

/-- non-vacuity: remove column 1 of a 3x2 array, take one item from the back, drop -/
example : (do let d ← TD.removeCol .debug (⟨[1, 2, 3, 4, 5, 6], 2, 3⟩ : TD Nat) 1
              let (x, d) ← d.nextBack .debug
              let (t', dropped) ← d.drop .debug
              pure (x, t', dropped)) = .ok (some 5, ⟨[1, 3, 4, 6], 2, 2⟩, [2]) := by rfl

/-! ### whole drain lifetimes: remove, consume from either end along any word, drop -/

/-- the cells of column `i`, top to bottom -/
def TD.colCells (t : TD α) (i : Nat) : List α := (List.range t.numRows).filterMap fun r => t.data[t.pos i r]?

/-- the cells of row `i`, left to right -/
def TD.rowCells (t : TD α) (i : Nat) : List α := (t.data.drop (i * t.numCols)).take t.numCols

/-- `remove_row(i)`, any consumption `w` from either end, then drop: what is yielded is what the ideal sequence over the row's
    cells yields along `w`; the rest is dropped by the drain; the array is the old one without row `i` — whatever `w` was -/
theorem C07_remove_row_run (m : Mode) (t : TD α) (h : t.Inv) (i : Nat) (hi : i < t.numRows) (w : List Bool) :
    ∃ d, t.removeRow m i = .ok d ∧
      (d.run w).1 = (Seq.ends (t.rowCells i) w).1 ∧ (d.run w).2.drop.2 = (Seq.ends (t.rowCells i) w).2 ∧
      (d.run w).2.drop.1.Inv ∧ (d.run w).2.drop.1.grid = t.grid.eraseIdx i ∧
      ((d.run w).1 ++ (d.run w).2.drop.2).Perm (t.rowCells i) := by
  obtain ⟨d, hd, hitems, _⟩ := C07_remove_row m t h i hi
  have hdrop := C07_remove_row_drop m t h i hi d hd (Seq.ends d.items w).2
  simp only at hdrop
  obtain ⟨h1, h2, _, _, _, h6⟩ := hdrop
  have hic : d.items = t.rowCells i := hitems
  refine ⟨d, hd, ?_⟩
  rw [dr_row_run w d]
  simp only
  rw [← hic]
  exact ⟨rfl, h1, h2, h6, h1 ▸ dr_ends_perm w d.items⟩

/-- `remove_col(i)`, any consumption `w` from either end, then drop -/
theorem C07_remove_col_run (m : Mode) (t : TD α) (h : t.Inv) (i : Nat) (hi : i < t.numCols) (w : List Bool) :
    ∃ d ys d' t' dropped, t.removeCol m i = .ok d ∧ d.run m w = .ok (ys, d') ∧ d'.drop m = .ok (t', dropped) ∧
      ys = (Seq.ends (t.colCells i) w).1 ∧ dropped = (Seq.ends (t.colCells i) w).2 ∧
      t'.Inv ∧ t'.grid = (if t.numCols = 1 then [] else t.grid.map fun ρ => ρ.eraseIdx i) ∧
      (ys ++ dropped).Perm (t.colCells i) := by
  obtain ⟨d, hd, hb, hc, hnc, hnr, _, hwf, habs⟩ := C07_remove_col m t h i hi
  have hwf0 : d.iter.WF t.numRows d.buf.length := by rw [hb]; exact hwf
  obtain ⟨it', k', hwf', habs', hrun⟩ := dr_col_run m w d t.numRows hwf0
  rw [hb] at hwf'
  rw [habs] at habs' hrun
  obtain ⟨t', dropped, hdrop, hinv, hdr, _, _, _, hgrid⟩ := C07_remove_col_drop m t h i hi
    { d with iter := it', taken := (Seq.ends ((List.range t.numRows).map fun r => t.pos i r) w).1.reverse ++ d.taken }
    hb hc hnc hnr k' hwf'
  simp only at hdr
  rw [habs'] at hdr
  -- the column's cells are the cells at the column's positions, all of which are inside the buffer
  have hsome : ∀ p ∈ (List.range t.numRows).map (fun r => t.pos i r), (t.data[p]?).isSome := by
    intro p hp
    rw [← habs] at hp
    have := rl_col_abs_lt d.iter t.numRows _ hwf p hp
    simp [this]
  have hcells : t.colCells i = ((List.range t.numRows).map fun r => t.pos i r).filterMap (t.data[·]?) := by
    unfold TD.colCells
    rw [List.filterMap_map]
    rfl
  have hends := dr_ends_filterMap (t.data[·]?) w _ hsome
  rw [← hcells] at hends
  refine ⟨d, _, _, t', dropped, hd, hrun, hdrop, ?_, ?_, hinv, hgrid, ?_⟩
  · rw [hends, hb]
  · rw [hends, hdr]
  · have := dr_ends_perm w (t.colCells i)
    rw [hends] at this
    rw [hdr, hb]
    exact this

/-- the ideal sequence conserves items along any word -/
theorem C07_ends_perm {ι : Type} (l : List ι) (w : List Bool) : ((Seq.ends l w).1 ++ (Seq.ends l w).2).Perm l :=
  dr_ends_perm w l

/-- what the column drain moves out are real cells: every position the cursor still stands for holds an element of the buffer
    (so the `Option.bind` in C07_drain_col_next never hides a missing cell) -/
theorem C07_drain_col_cells_exist (d : DrainCol α) (k : Nat) (hwf : d.iter.WF k d.buf.length) :
    ∀ p ∈ d.iter.abs k, ∃ x, d.buf[p]? = some x := by
  intro p hp
  have hlt : p < d.buf.length := rl_col_abs_lt d.iter k _ hwf p hp
  exact ⟨d.buf[p], List.getElem?_eq_getElem hlt⟩

end Toodee
