import Toodee.Spec.Grid
import Toodee.Spec.History
import Toodee.Spec.Cells
import Toodee.Proofs.OwnershipLemmas
import Toodee.Proofs.HistoryLemmas
import Toodee.Proofs.HistoryFlow
import Toodee.Properties.C01
/-
  C05 — Every element is dropped exactly once (the accounting law).

  Ownership is by position: the array owns exactly the cells `data[0..len)`.  For every operation the multiset of elements is
  conserved: what the array owns afterwards, plus what was handed to the caller, plus what the crate dropped, is exactly what
  the array owned before plus what was supplied — a `List.Perm`, for an arbitrary element type; instantiating elements with
  unique ids turns it into "exactly once": the general lemma `C05_exactly_once` shows that the parts of a permutation of a
  duplicate-free list are pairwise disjoint (never twice, never while still reachable).
  The laws for insert / remove are corollaries of the refinement theorems C06 / C07; in-place permutations (swap, sort,
  translate, flips) conserve the buffer outright; overwrites (fill, copies, indexed writes) drop exactly the replaced cells.
  That Rust runs `Drop` where the model says is established on explored histories by the harness's ledger (partial, stated).
-/
namespace Toodee
variable {α : Type}

/-- parts of a permutation of a duplicate-free list share no element -/
theorem C05_exactly_once (a b l : List α) (hp : (a ++ b).Perm l) (hn : l.Nodup) :
    a.Nodup ∧ b.Nodup ∧ ∀ x, x ∈ a → x ∉ b := by
  have h := (hp.nodup_iff).2 hn
  rw [List.nodup_append] at h
  exact ⟨h.1, h.2.1, fun x hx hb => h.2.2 x hx x hb rfl⟩

theorem C05_insert_row (m : Mode) (cap : Nat) (t : TD α) (h : t.Inv) (i : Nat) (xs spare : List α)
    (hi : i ≤ t.numRows) (hlen : t.numRows = 0 ∨ xs.length = t.numCols)
    (hcap : t.data.length + xs.length ≤ cap) (hsp : xs.length ≤ spare.length)
    (hword : t.data.length + xs.length < WORD) :
    (t.insertRow m cap i (honest xs) spare).t.data.Perm (t.data ++ xs) := by
  rw [insertRow_honest m cap t h i xs spare hi hlen hcap hsp hword]
  show (t.data.take (i * t.numCols) ++ xs ++ t.data.drop (i * t.numCols)).Perm (t.data ++ xs)
  have h1 := ow_perm_swap_tail (t.data.take (i * t.numCols)) xs (t.data.drop (i * t.numCols))
  rw [List.take_append_drop] at h1
  exact h1

theorem C05_insert_col (m : Mode) (cap : Nat) (t : TD α) (h : t.Inv) (i : Nat) (xs spare : List α)
    (hi : i ≤ t.numCols) (hlen : t.numCols = 0 ∨ xs.length = t.numRows)
    (hcap : t.data.length + xs.length ≤ cap) (hsp : xs.length ≤ spare.length)
    (hword : t.data.length + xs.length < WORD) :
    (t.insertCol m cap i (honest xs) spare).t.data.Perm (t.data ++ xs) := by
  obtain ⟨_, _, _, _, hdata, _, _⟩ := C06_insert_col_ok m cap t h i xs spare hi hlen hcap hsp hword
  rw [hdata]
  by_cases hc : t.numCols = 0
  · rw [if_pos hc]
    have : t.data = [] := List.eq_nil_of_length_eq_zero (by rw [h.len, hc, Nat.zero_mul])
    rw [this]
    exact List.Perm.refl _
  · rw [if_neg hc]
    have hx : xs.length = t.grid.length := by
      rw [h.grid_length]
      rcases hlen with h1 | h1
      · exact absurd h1 hc
      · exact h1
    have hp := ow_zipWith_insAt_perm i t.grid xs hx
    rw [← h.data_eq_flatten_grid] at hp
    exact hp

/-- `remove_row`: kept cells + the drained row (whether yielded to the caller or dropped with the drain) = the old cells -/
theorem C05_remove_row (m : Mode) (t : TD α) (h : t.Inv) (i : Nat) (hi : i < t.numRows)
    (d : DrainRow α) (hd : t.removeRow m i = .ok d) :
    (d.drop.1.data ++ d.items).Perm t.data := by
  have he := ow_removeRow_eq m t h i hi
  rw [hd] at he
  injection he with hdd
  subst hdd
  show (t.data.take (i * t.numCols) ++ t.data.drop (i * t.numCols + t.numCols)
    ++ (t.data.drop (i * t.numCols)).take t.numCols).Perm t.data
  have hs := ow_data_split_row t.data (i * t.numCols) t.numCols
  conv => rhs; rw [hs]
  exact ow_perm_swap_tail _ _ _

/-- `remove_col`: kept cells + the column's cells = the old cells -/
theorem C05_remove_col (t : TD α) (h : t.Inv) (i : Nat) (hi : i < t.numCols) :
    ((t.grid.map fun ρ => ρ.eraseIdx i).flatten ++ (List.range t.numRows).filterMap (fun r => t.data[t.pos i r]?)).Perm t.data := by
  rw [ow_col_cells t h i hi]
  have hp := ow_eraseIdx_col_perm t.numCols i hi t.grid t.grid_row_length
  rw [← h.data_eq_flatten_grid] at hp
  exact hp

/-- a cell permutation of a view conserves the whole buffer -/
theorem C05_perm_conserves (v : VW) (buf : List α) (h : v.Inv buf.length) (g : Nat × Nat → Nat × Nat)
    (hg : ∀ c r, c < v.numCols → r < v.numRows → (g (c, r)).1 < v.numCols ∧ (g (c, r)).2 < v.numRows)
    (hinj : ∀ c r c' r', c < v.numCols → r < v.numRows → c' < v.numCols → r' < v.numRows →
      g (c, r) = g (c', r') → (c, r) = (c', r')) :
    (gather buf (v.mapCells g)).Perm buf :=
  ow_gather_perm buf _ (fun _ hp => VW.mapCells_lt h g hg hp)
    (fun p q _ _ he => ow_mapCells_inj h g hg hinj p q he)

/-- an overwrite keeps the buffer's length: one old cell leaves (is dropped) for each new cell that enters -/
theorem C05_upd_length (v : VW) (buf : List α) (f : Nat × Nat → Option α) :
    (v.updCells buf f).length = buf.length :=
  VW.updCells_length v buf f

/-! ### the accounting law over histories -/

/-- an overwrite of cells of an owned array conserves elements: the new buffer plus the replaced cells are the old buffer plus the
    written values -/
theorem C05_overwrite_conserves (t : TD α) (h : t.Inv) (f : Nat × Nat → Option α) :
    (t.asView.updCells t.data f ++ t.overwritten f).Perm (t.data ++ t.written f) := by
  have _ := h
  exact fl_overwrite_conserves t f

/-! helper lemmas: the flow of each drain / insert step -/

/-- chaining two conservation steps: handed, dropped, leaked and supplied elements accumulate -/
private theorem fl_chain4 {A0 A1 A2 H1 H2 D1 D2 L1 L2 S1 S2 : List α}
    (h1 : (A1 ++ H1 ++ D1 ++ L1).Perm (A0 ++ S1)) (h2 : (A2 ++ H2 ++ D2 ++ L2).Perm (A1 ++ S2)) :
    (A2 ++ (H1 ++ H2) ++ (D1 ++ D2) ++ (L1 ++ L2)).Perm (A0 ++ (S1 ++ S2)) := by
  have e0 : (A2 ++ (H1 ++ H2) ++ (D1 ++ D2) ++ (L1 ++ L2)).Perm (A2 ++ ((H1 ++ D1 ++ L1) ++ (H2 ++ D2 ++ L2))) := by
    rw [List.append_assoc, List.append_assoc]
    apply List.Perm.append_left
    rw [← List.append_assoc]
    exact ((fl_shuffle H1 H2 D1 D2).append_right _).trans (fl_shuffle (H1 ++ D1) (H2 ++ D2) L1 L2)
  have e1 : (A2 ++ ((H1 ++ D1 ++ L1) ++ (H2 ++ D2 ++ L2))).Perm (A2 ++ (H2 ++ D2 ++ L2) ++ (H1 ++ D1 ++ L1)) := by
    have := ow_perm_swap_tail A2 (H1 ++ D1 ++ L1) (H2 ++ D2 ++ L2)
    rw [List.append_assoc A2 (H1 ++ D1 ++ L1) (H2 ++ D2 ++ L2)] at this
    exact this
  have h2' : (A2 ++ (H2 ++ D2 ++ L2)).Perm (A1 ++ S2) := by
    rw [← List.append_assoc, ← List.append_assoc]; exact h2
  have h1' : (A1 ++ (H1 ++ D1 ++ L1)).Perm (A0 ++ S1) := by
    rw [← List.append_assoc, ← List.append_assoc]; exact h1
  have e2 : (A2 ++ (H2 ++ D2 ++ L2) ++ (H1 ++ D1 ++ L1)).Perm (A1 ++ S2 ++ (H1 ++ D1 ++ L1)) := h2'.append_right _
  have e3 : (A1 ++ S2 ++ (H1 ++ D1 ++ L1)).Perm (A1 ++ (H1 ++ D1 ++ L1) ++ S2) := ow_perm_swap_tail _ _ _
  have e4 : (A1 ++ (H1 ++ D1 ++ L1) ++ S2).Perm (A0 ++ S1 ++ S2) := h1'.append_right _
  have e5 : A0 ++ (S1 ++ S2) = A0 ++ S1 ++ S2 := (List.append_assoc ..).symm
  rw [e5]
  exact (((e0.trans e1).trans e2).trans e3).trans e4

private theorem fl_rowCells_items (m : Mode) (t : TD α) (h : t.Inv) (i : Nat) (hi : i < t.numRows) (d : DrainRow α)
    (hd : t.removeRow m i = .ok d) : d.items = t.rowCells i := by
  obtain ⟨d', hd', hit, _⟩ := C07_remove_row m t h i hi
  rw [hd] at hd'
  injection hd' with e
  subst e
  exact hit

private theorem fl_step_removeRow (e : HEnv) (t : TD α) (h : t.Inv) (i : Nat) (w : List Bool) :
    ((hstep e t (.removeRow i w)).data ++ (hflow e t (.removeRow i w)).handed ++ (hflow e t (.removeRow i w)).dropped
      ++ (hflow e t (.removeRow i w)).leaked).Perm (t.data ++ (hflow e t (.removeRow i w)).supplied) ∧
    (hflow e t (.removeRow i w)).leaked = [] := by
  simp only [hstep, hflow]
  by_cases hi : i < t.numRows
  · obtain ⟨d, hd, _, _, _, _, hp⟩ := C07_remove_row_run e.m t h i hi w
    have hdata : (d.run w).2.drop.1.data = d.drop.1.data := by rw [dr_row_run]; rfl
    have h0 := C05_remove_row e.m t h i hi d hd
    rw [fl_rowCells_items e.m t h i hi d hd] at h0
    rw [hd]
    refine ⟨?_, rfl⟩
    show ((d.run w).2.drop.1.data ++ (d.run w).1 ++ (d.run w).2.drop.2 ++ []).Perm (t.data ++ [])
    rw [hdata, List.append_nil, List.append_nil, List.append_assoc]
    exact (List.Perm.append_left _ hp).trans h0
  · rw [C07_remove_row_reject e.m t i hi]
    exact ⟨by simp, rfl⟩

private theorem fl_step_removeRowLeak (e : HEnv) (t : TD α) (h : t.Inv) (i : Nat) (w : List Bool) :
    ((hstep e t (.removeRowLeak i w)).data ++ (hflow e t (.removeRowLeak i w)).handed
      ++ (hflow e t (.removeRowLeak i w)).dropped ++ (hflow e t (.removeRowLeak i w)).leaked).Perm
      (t.data ++ (hflow e t (.removeRowLeak i w)).supplied) := by
  simp only [hstep, hflow]
  by_cases hi : i < t.numRows
  · obtain ⟨d, hd, _, _, _, _, hp⟩ := C12_leak_drain_row_run e.m t h i hi w
    rw [hd]
    show ((d.run w).2.leak.1.data ++ (d.run w).1 ++ [] ++ (d.run w).2.leak.2).Perm (t.data ++ [])
    rw [List.append_nil, List.append_nil]
    exact hp
  · rw [C07_remove_row_reject e.m t i hi]
    simp

private theorem fl_step_popRow (e : HEnv) (t : TD α) (h : t.Inv) (w : List Bool) :
    ((hstep e t (.popRow w)).data ++ (hflow e t (.popRow w)).handed ++ (hflow e t (.popRow w)).dropped
      ++ (hflow e t (.popRow w)).leaked).Perm (t.data ++ (hflow e t (.popRow w)).supplied) ∧
    (hflow e t (.popRow w)).leaked = [] := by
  by_cases h0 : t.numRows = 0
  · simp only [hstep, hflow, (C07_pop_row e.m t h).1 h0]
    exact ⟨by simp, trivial⟩
  · obtain ⟨d, hd, _⟩ := C07_remove_row e.m t h (t.numRows - 1) (by omega)
    have hp := hs_popRow_some e.m t h h0 d hd
    have hr := fl_step_removeRow e t h (t.numRows - 1) w
    simp only [hstep, hflow, hd] at hr
    simp only [hstep, hflow, hp]
    exact hr

/-- the cells left after removing the only column: none -/
private theorem fl_erase_only_col (rows : List (List α)) (hrow : ∀ ρ ∈ rows, ρ.length = 1) (i : Nat) (hi : i < 1) :
    (rows.map fun ρ => ρ.eraseIdx i).flatten = [] := by
  rw [List.flatten_eq_nil_iff]
  intro l hl
  obtain ⟨ρ, hρ, rfl⟩ := List.mem_map.1 hl
  apply List.eq_nil_of_length_eq_zero
  rw [List.length_eraseIdx_of_lt (by rw [hrow ρ hρ]; exact hi), hrow ρ hρ]

private theorem fl_removeCol_data (t : TD α) (i : Nat) (hi : i < t.numCols) (t' : TD α) (hinv : t'.Inv)
    (hg : t'.grid = (if t.numCols = 1 then [] else t.grid.map fun ρ => ρ.eraseIdx i)) :
    t'.data = (t.grid.map fun ρ => ρ.eraseIdx i).flatten := by
  rw [hinv.data_eq_flatten_grid, hg]
  by_cases h1 : t.numCols = 1
  · rw [if_pos h1, fl_erase_only_col t.grid (fun ρ hρ => by rw [t.grid_row_length ρ hρ, h1]) i (by omega)]
    rfl
  · rw [if_neg h1]

private theorem fl_step_removeCol (e : HEnv) (t : TD α) (h : t.Inv) (i : Nat) (w : List Bool) :
    ((hstep e t (.removeCol i w)).data ++ (hflow e t (.removeCol i w)).handed ++ (hflow e t (.removeCol i w)).dropped
      ++ (hflow e t (.removeCol i w)).leaked).Perm (t.data ++ (hflow e t (.removeCol i w)).supplied) ∧
    (hflow e t (.removeCol i w)).leaked = [] := by
  by_cases hi : i < t.numCols
  · obtain ⟨d, ys, d', t', dropped, hd, hrun, hdrop, hs, _, _, _, hinv, hg, hp⟩ := hs_step_removeCol e t h i hi w
    rw [hs]
    simp only [hflow, hd, ok_bind, hrun, hdrop, pure_eq]
    refine ⟨?_, trivial⟩
    rw [fl_removeCol_data t i hi t' hinv hg, List.append_nil, List.append_nil, List.append_assoc]
    exact (List.Perm.append_left _ hp).trans (C05_remove_col t h i hi)
  · rw [(hs_step_removeCol_reject e t i hi w).1]
    simp only [hflow, C07_remove_col_reject e.m t i hi, err_bind]
    exact ⟨by simp, trivial⟩

private theorem fl_step_popCol (e : HEnv) (t : TD α) (h : t.Inv) (w : List Bool) :
    ((hstep e t (.popCol w)).data ++ (hflow e t (.popCol w)).handed ++ (hflow e t (.popCol w)).dropped
      ++ (hflow e t (.popCol w)).leaked).Perm (t.data ++ (hflow e t (.popCol w)).supplied) ∧
    (hflow e t (.popCol w)).leaked = [] := by
  by_cases h0 : t.numCols = 0
  · rw [(hs_step_popCol_none e t h h0 w).1]
    simp only [hflow, (C07_pop_col e.m t h).1 h0, ok_bind, pure_eq]
    exact ⟨by simp, trivial⟩
  · obtain ⟨d, ys, d', t', dropped, hd, hrun, hdrop, _⟩ := hs_step_removeCol e t h (t.numCols - 1) (by omega) w
    have hp := hs_popCol_some e.m t h h0 d hd
    have hr := fl_step_removeCol e t h (t.numCols - 1) w
    rw [(hs_step_popCol e t h h0 w).1]
    simp only [hflow, hd, ok_bind, hrun, hdrop, pure_eq] at hr
    simp only [hflow, hp, ok_bind, hrun, hdrop, pure_eq]
    exact hr

private theorem fl_step_removeColLeak (e : HEnv) (t : TD α) (h : t.Inv) (i : Nat) (w : List Bool) :
    ((hstep e t (.removeColLeak i w)).data ++ (hflow e t (.removeColLeak i w)).handed
      ++ (hflow e t (.removeColLeak i w)).dropped ++ (hflow e t (.removeColLeak i w)).leaked).Perm
      (t.data ++ (hflow e t (.removeColLeak i w)).supplied) := by
  by_cases hi : i < t.numCols
  · obtain ⟨d, ys, d', hd, hrun, hs, _, hp⟩ := hs_step_removeColLeak e t h i hi w
    rw [hs]
    simp only [hflow, hd, ok_bind, hrun, pure_eq]
    rw [List.append_nil, List.append_nil, List.nil_append]
    exact hp
  · rw [(hs_step_removeColLeak_reject e t i hi w).1]
    simp only [hflow, C07_remove_col_reject e.m t i hi, err_bind]
    simp

/-- **one call conserves elements**: what the array owns afterwards, plus what was handed to the caller, plus what the crate
    dropped, plus what was leaked, is exactly what the array owned before plus what the call took from the caller -/
theorem C05_step_conserves (e : HEnv) (he : e.ok) (t : TD α) (h : t.Inv) (op : HOp α) (hop : op.wf) :
    ((hstep e t op).data ++ (hflow e t op).handed ++ (hflow e t op).dropped ++ (hflow e t op).leaked).Perm
      (t.data ++ (hflow e t op).supplied) := by
  cases op with
  | fromVec c r v =>
    simp only [hstep, hflow]
    by_cases hs : shapeOk c r ∧ c * r = v.length
    · obtain ⟨t', e', _, _, _, hdata⟩ := (C20_from_vec c r v).1 hs
      rw [e']
      show (t'.data ++ [] ++ t.data ++ []).Perm (t.data ++ v)
      rw [hdata, List.append_nil, List.append_nil]
      exact List.perm_append_comm
    · rw [(C20_from_vec c r v).2 hs]
      show (t.data ++ [] ++ v ++ []).Perm (t.data ++ v)
      rw [List.append_nil, List.append_nil]
  | newArr c r d =>
    simp only [hstep, hflow]
    cases TD.new e.cap c r d with
    | ok t' =>
      show (t'.data ++ [] ++ t.data ++ []).Perm (t.data ++ t'.data)
      rw [List.append_nil, List.append_nil]
      exact List.perm_append_comm
    | error er =>
      show (t.data ++ [] ++ [] ++ []).Perm (t.data ++ [])
      simp
  | initArr c r x =>
    simp only [hstep, hflow]
    cases TD.init e.cap c r x with
    | ok t' =>
      show (t'.data ++ [] ++ (t.data ++ (if t'.data.length = 0 then [x] else [])) ++ []).Perm
        (t.data ++ (t'.data ++ (if t'.data.length = 0 then [x] else [])))
      rw [List.append_nil, List.append_nil, ← List.append_assoc, ← List.append_assoc]
      exact List.perm_append_comm.append_right _
    | error er =>
      show (t.data ++ [] ++ [x] ++ []).Perm (t.data ++ [x])
      rw [List.append_nil, List.append_nil]
  | insertRow i it spare =>
    have hp := (C11_insert_row e.m e.cap t h i it spare (Or.inl hop) he).2.2.2
    show ((t.insertRow e.m e.cap i it spare).t.data ++ (t.insertRow e.m e.cap i it spare).rest.filterMap id ++ []
      ++ (t.insertRow e.m e.cap i it spare).leaked).Perm (t.data ++ it.events.filterMap id)
    rw [List.append_nil]
    exact (ow_perm_swap_tail _ _ _).trans hp
  | insertCol i it spare =>
    have hp := (C11_insert_col e.m e.cap t h i it spare (Or.inl hop) he).2.2.2
    show ((t.insertCol e.m e.cap i it spare).t.data ++ (t.insertCol e.m e.cap i it spare).rest.filterMap id ++ []
      ++ (t.insertCol e.m e.cap i it spare).leaked).Perm (t.data ++ it.events.filterMap id)
    rw [List.append_nil]
    exact (ow_perm_swap_tail _ _ _).trans hp
  | removeRow i w => exact (fl_step_removeRow e t h i w).1
  | removeCol i w => exact (fl_step_removeCol e t h i w).1
  | popRow w => exact (fl_step_popRow e t h w).1
  | popCol w => exact (fl_step_popCol e t h w).1
  | removeRowLeak i w => exact fl_step_removeRowLeak e t h i w
  | removeColLeak i w => exact fl_step_removeColLeak e t h i w
  | clear =>
    show (([] : List α) ++ [] ++ t.data ++ []).Perm (t.data ++ [])
    simp
  | swapDimensions =>
    show (t.data ++ [] ++ [] ++ []).Perm (t.data ++ [])
    simp
  | capacityCall k =>
    show (t.data ++ [] ++ [] ++ []).Perm (t.data ++ [])
    simp
  | takeInto k =>
    show (([] : List α) ++ t.data.take k ++ t.data.drop k ++ []).Perm (t.data ++ [])
    simp
  | inplace op => exact (fl_step_inplace e t h op hop).1
  | viaView s e' ops => exact (fl_step_viaView e t h s e' ops hop).1

/-- **any history conserves elements** -/
theorem C05_history_conserves (e : HEnv) (he : e.ok) (t : TD α) (h : t.Inv) (ops : List (HOp α)) (hops : ∀ op ∈ ops, op.wf) :
    ((hrun e t ops).data ++ (hflowRun e t ops).handed ++ (hflowRun e t ops).dropped ++ (hflowRun e t ops).leaked).Perm
      (t.data ++ (hflowRun e t ops).supplied) := by
  induction ops generalizing t with
  | nil =>
    show (t.data ++ [] ++ [] ++ []).Perm (t.data ++ [])
    simp
  | cons op ops ih =>
    have hop := hops op (List.mem_cons_self ..)
    have h1 := C05_step_conserves e he t h op hop
    have h2 := ih (hstep e t op) (C01_step_inv e he t h op hop) (fun o ho => hops o (List.mem_cons_of_mem _ ho))
    exact fl_chain4 h1 h2

/-- an honest iterator script is `honest xs` -/
private theorem fl_honest_script (it : IterScript α) (hon : it.events.all Option.isSome ∧ it.claimed = it.events.length) :
    it = honest (it.events.filterMap id) := by
  apply hs_events_honest it hon.1
  rw [hon.2]
  conv => lhs; rw [hs_all_some it.events hon.1]
  rw [List.length_map]

private theorem fl_insertRow_no_leak (m : Mode) (cap : Nat) (hcapw : cap < WORD) (t : TD α) (h : t.Inv) (i : Nat)
    (xs spare : List α) (hsp : xs.length ≤ spare.length) :
    (t.insertRow m cap i (honest xs) spare).leaked = [] := by
  by_cases hacc : i ≤ t.numRows ∧ (t.numRows = 0 ∨ (honest xs).claimed = t.numCols)
  · have hn : (if t.numRows = 0 then (honest xs).claimed else t.numCols) = xs.length := by
      by_cases h0 : t.numRows = 0
      · rw [if_pos h0]; rfl
      · rw [if_neg h0]
        rcases hacc.2 with h1 | h1
        · exact absurd h1 h0
        · exact h1.symm
    by_cases hres : reserveOk cap t.data.length xs.length = true
    · have hcap : t.data.length + xs.length ≤ cap := by simpa [reserveOk] using hres
      exact (C06_insert_row_ok m cap t h i xs spare hacc.1 hacc.2 hcap hsp (by omega)).2.2.1
    · unfold TD.insertRow
      rw [if_neg (Decidable.not_not.2 hacc.1)]
      simp only [hn]
      split
      · rfl
      · rw [if_pos (by simpa using hres)]
  · exact (C06_insert_row_reject m cap t i (honest xs) spare hacc).2.2.2

private theorem fl_insertCol_no_leak (m : Mode) (cap : Nat) (hcapw : cap < WORD) (t : TD α) (h : t.Inv) (i : Nat)
    (xs spare : List α) (hsp : xs.length ≤ spare.length) :
    (t.insertCol m cap i (honest xs) spare).leaked = [] := by
  by_cases hacc : i ≤ t.numCols ∧ (t.numCols = 0 ∨ (honest xs).claimed = t.numRows)
  · have hn : (if t.numCols = 0 then (honest xs).claimed else t.numRows) = xs.length := by
      by_cases h0 : t.numCols = 0
      · rw [if_pos h0]; rfl
      · rw [if_neg h0]
        rcases hacc.2 with h1 | h1
        · exact absurd h1 h0
        · exact h1.symm
    by_cases hres : reserveOk cap t.data.length xs.length = true
    · have hcap : t.data.length + xs.length ≤ cap := by simpa [reserveOk] using hres
      exact (C06_insert_col_ok m cap t h i xs spare hacc.1 hacc.2 hcap hsp (by omega)).2.2.1
    · unfold TD.insertCol
      rw [if_neg (Decidable.not_not.2 hacc.1)]
      simp only [hn]
      split
      · rfl
      · rw [if_pos (by simpa using hres)]
  · exact (C06_insert_col_reject m cap t i (honest xs) spare hacc).2.2.2

/-- a call during which no caller code panics, no iterator lies and nothing is forgotten leaks nothing -/
theorem C05_step_no_leak (e : HEnv) (he : e.ok) (t : TD α) (h : t.Inv) (op : HOp α) (hop : op.wf) (hon : op.honest) :
    (hflow e t op).leaked = [] := by
  cases op with
  | fromVec c r v =>
    simp only [hflow]
    cases TD.fromVec c r v <;> rfl
  | newArr c r d =>
    simp only [hflow]
    cases TD.new e.cap c r d <;> rfl
  | initArr c r x =>
    simp only [hflow]
    cases TD.init e.cap c r x <;> rfl
  | insertRow i it spare =>
    have hit := fl_honest_script it hon
    have hsp : (it.events.filterMap id).length ≤ spare.length := by
      have : it.claimed ≤ spare.length := hop
      rw [hit] at this
      exact this
    show (t.insertRow e.m e.cap i it spare).leaked = []
    rw [hit]
    exact fl_insertRow_no_leak e.m e.cap he t h i _ spare hsp
  | insertCol i it spare =>
    have hit := fl_honest_script it hon
    have hsp : (it.events.filterMap id).length ≤ spare.length := by
      have : it.claimed ≤ spare.length := hop
      rw [hit] at this
      exact this
    show (t.insertCol e.m e.cap i it spare).leaked = []
    rw [hit]
    exact fl_insertCol_no_leak e.m e.cap he t h i _ spare hsp
  | removeRow i w => exact (fl_step_removeRow e t h i w).2
  | removeCol i w => exact (fl_step_removeCol e t h i w).2
  | popRow w => exact (fl_step_popRow e t h w).2
  | popCol w => exact (fl_step_popCol e t h w).2
  | removeRowLeak i w => exact absurd hon id
  | removeColLeak i w => exact absurd hon id
  | clear => rfl
  | swapDimensions => rfl
  | capacityCall k => rfl
  | takeInto k => rfl
  | inplace op => exact (fl_step_inplace e t h op hop).2
  | viaView s e' ops => exact (fl_step_viaView e t h s e' ops hop).2

theorem C05_history_no_leak (e : HEnv) (he : e.ok) (t : TD α) (h : t.Inv) (ops : List (HOp α)) (hops : ∀ op ∈ ops, op.wf)
    (hon : ∀ op ∈ ops, op.honest) :
    (hflowRun e t ops).leaked = [] := by
  induction ops generalizing t with
  | nil => rfl
  | cons op ops ih =>
    have hop := hops op (List.mem_cons_self ..)
    have h1 := C05_step_no_leak e he t h op hop (hon op (List.mem_cons_self ..))
    have h2 := ih (hstep e t op) (C01_step_inv e he t h op hop) (fun o ho => hops o (List.mem_cons_of_mem _ ho))
      (fun o ho => hon o (List.mem_cons_of_mem _ ho))
    show (hflow e t op).leaked ++ (hflowRun e (hstep e t op) ops).leaked = []
    rw [h1, h2]
    rfl

/-- **the second sentence of the property**: after a history in which nothing panics and nothing is leaked, once the array is
    dropped (`clear` drops the same cells) no element is left undropped: everything the array ever held or was given has been
    dropped by the crate or handed to the caller — each exactly once (a permutation) -/
theorem C05_history_all_accounted (e : HEnv) (he : e.ok) (t : TD α) (h : t.Inv) (ops : List (HOp α)) (hops : ∀ op ∈ ops, op.wf)
    (hon : ∀ op ∈ ops, op.honest) :
    ((hflowRun e t (ops ++ [.clear])).handed ++ (hflowRun e t (ops ++ [.clear])).dropped).Perm
      (t.data ++ (hflowRun e t (ops ++ [.clear])).supplied) := by
  have hops' : ∀ op ∈ ops ++ [HOp.clear], op.wf := by
    intro op hm
    rcases List.mem_append.1 hm with h1 | h1
    · exact hops op h1
    · rw [List.mem_singleton.1 h1]; trivial
  have hon' : ∀ op ∈ ops ++ [HOp.clear], op.honest := by
    intro op hm
    rcases List.mem_append.1 hm with h1 | h1
    · exact hon op h1
    · rw [List.mem_singleton.1 h1]; trivial
  have hc := C05_history_conserves e he t h _ hops'
  have hl := C05_history_no_leak e he t h _ hops' hon'
  have hd : (hrun e t (ops ++ [.clear])).data = [] := by
    unfold hrun
    rw [List.foldl_append]
    rfl
  rw [hd, hl, List.append_nil, List.nil_append] at hc
  exact hc

/-- with unique element identities: along any history no element is both still in the array and already handed out / dropped /
    leaked, and none is handed out, dropped or leaked twice -/
theorem C05_history_exactly_once (e : HEnv) (he : e.ok) (t : TD α) (h : t.Inv) (ops : List (HOp α)) (hops : ∀ op ∈ ops, op.wf)
    (hnd : (t.data ++ (hflowRun e t ops).supplied).Nodup) :
    ((hrun e t ops).data ++ (hflowRun e t ops).handed ++ (hflowRun e t ops).dropped ++ (hflowRun e t ops).leaked).Nodup :=
  ((C05_history_conserves e he t h ops hops).nodup_iff).2 hnd

/-- non-vacuity: a concrete history with its flow -/
example :
    let e : HEnv := ⟨.release, 1000, 1000⟩
    let ops : List (HOp Nat) :=
      [.insertRow 0 (honest [1, 2, 3]) [0, 0, 0], .insertRow 1 (honest [4, 5, 6]) [0, 0, 0], .removeCol 1 [true],
       .inplace (.set 0 0 9), .takeInto 1]
    hflowRun e (TD.default : TD Nat) ops = ⟨[1, 2, 3, 4, 5, 6, 9], [2, 9], [5, 1, 3, 4, 6], []⟩ := by
  rfl

end Toodee
