import Toodee.Spec.Grid
import Toodee.Spec.History
import Toodee.Spec.Cells
import Toodee.Proofs.OwnershipLemmas
import Toodee.Proofs.HistoryLemmas
import Toodee.Properties.C01
/-
  C05 — Every element is dropped exactly once (the accounting law).

  Ownership is by position: the array owns exactly the cells `data[0..len)`.  For every operation the multiset of elements is
  conserved: what the array owns afterwards, plus what was handed to the caller, plus what the crate dropped, is exactly what
  the array owned before plus what was supplied — a `List.Perm`, for an arbitrary element type; instantiating elements with
  unique ids turns it into "exactly once": the general lemma `C05_exactly_once` shows that the parts of a permutation of a
  duplicate-free list are pairwise disjoint (never twice, never while still reachable).
  The laws for insert / remove are corollaries of the refinement theorems C06 / C07; in-place permutations (swap, sort,
  translate, flips) conserve the buffer outright; overwrites (fill, copies, indexed writes) drop exactly the replaced cells.
  That Rust runs `Drop` where the model says is established on explored histories by the harness's ledger (partial, stated).
-/
namespace Toodee
variable {α : Type}

/-- parts of a permutation of a duplicate-free list share no element -/
theorem C05_exactly_once (a b l : List α) (hp : (a ++ b).Perm l) (hn : l.Nodup) :
    a.Nodup ∧ b.Nodup ∧ ∀ x, x ∈ a → x ∉ b := by
  have h := (hp.nodup_iff).2 hn
  rw [List.nodup_append] at h
  exact ⟨h.1, h.2.1, fun x hx hb => h.2.2 x hx x hb rfl⟩

theorem C05_insert_row (m : Mode) (cap : Nat) (t : TD α) (h : t.Inv) (i : Nat) (xs spare : List α)
    (hi : i ≤ t.numRows) (hlen : t.numRows = 0 ∨ xs.length = t.numCols)
    (hcap : t.data.length + xs.length ≤ cap) (hsp : xs.length ≤ spare.length)
    (hword : t.data.length + xs.length < WORD) :
    (t.insertRow m cap i (honest xs) spare).t.data.Perm (t.data ++ xs) := by
  rw [insertRow_honest m cap t h i xs spare hi hlen hcap hsp hword]
  show (t.data.take (i * t.numCols) ++ xs ++ t.data.drop (i * t.numCols)).Perm (t.data ++ xs)
  have h1 := ow_perm_swap_tail (t.data.take (i * t.numCols)) xs (t.data.drop (i * t.numCols))
  rw [List.take_append_drop] at h1
  exact h1

theorem C05_insert_col (m : Mode) (cap : Nat) (t : TD α) (h : t.Inv) (i : Nat) (xs spare : List α)
    (hi : i ≤ t.numCols) (hlen : t.numCols = 0 ∨ xs.length = t.numRows)
    (hcap : t.data.length + xs.length ≤ cap) (hsp : xs.length ≤ spare.length)
    (hword : t.data.length + xs.length < WORD) :
    (t.insertCol m cap i (honest xs) spare).t.data.Perm (t.data ++ xs) := by
  obtain ⟨_, _, _, _, hdata, _, _⟩ := C06_insert_col_ok m cap t h i xs spare hi hlen hcap hsp hword
  rw [hdata]
  by_cases hc : t.numCols = 0
  · rw [if_pos hc]
    have : t.data = [] := List.eq_nil_of_length_eq_zero (by rw [h.len, hc, Nat.zero_mul])
    rw [this]
    exact List.Perm.refl _
  · rw [if_neg hc]
    have hx : xs.length = t.grid.length := by
      rw [h.grid_length]
      rcases hlen with h1 | h1
      · exact absurd h1 hc
      · exact h1
    have hp := ow_zipWith_insAt_perm i t.grid xs hx
    rw [← h.data_eq_flatten_grid] at hp
    exact hp

/-- `remove_row`: kept cells + the drained row (whether yielded to the caller or dropped with the drain) = the old cells -/
theorem C05_remove_row (m : Mode) (t : TD α) (h : t.Inv) (i : Nat) (hi : i < t.numRows)
    (d : DrainRow α) (hd : t.removeRow m i = .ok d) :
    (d.drop.1.data ++ d.items).Perm t.data := by
  have he := ow_removeRow_eq m t h i hi
  rw [hd] at he
  injection he with hdd
  subst hdd
  show (t.data.take (i * t.numCols) ++ t.data.drop (i * t.numCols + t.numCols)
    ++ (t.data.drop (i * t.numCols)).take t.numCols).Perm t.data
  have hs := ow_data_split_row t.data (i * t.numCols) t.numCols
  conv => rhs; rw [hs]
  exact ow_perm_swap_tail _ _ _

/-- `remove_col`: kept cells + the column's cells = the old cells -/
theorem C05_remove_col (t : TD α) (h : t.Inv) (i : Nat) (hi : i < t.numCols) :
    ((t.grid.map fun ρ => ρ.eraseIdx i).flatten ++ (List.range t.numRows).filterMap (fun r => t.data[t.pos i r]?)).Perm t.data := by
  rw [ow_col_cells t h i hi]
  have hp := ow_eraseIdx_col_perm t.numCols i hi t.grid t.grid_row_length
  rw [← h.data_eq_flatten_grid] at hp
  exact hp

/-- a cell permutation of a view conserves the whole buffer -/
theorem C05_perm_conserves (v : VW) (buf : List α) (h : v.Inv buf.length) (g : Nat × Nat → Nat × Nat)
    (hg : ∀ c r, c < v.numCols → r < v.numRows → (g (c, r)).1 < v.numCols ∧ (g (c, r)).2 < v.numRows)
    (hinj : ∀ c r c' r', c < v.numCols → r < v.numRows → c' < v.numCols → r' < v.numRows →
      g (c, r) = g (c', r') → (c, r) = (c', r')) :
    (gather buf (v.mapCells g)).Perm buf :=
  ow_gather_perm buf _ (fun _ hp => VW.mapCells_lt h g hg hp)
    (fun p q _ _ he => ow_mapCells_inj h g hg hinj p q he)

/-- an overwrite keeps the buffer's length: one old cell leaves (is dropped) for each new cell that enters -/
theorem C05_upd_length (v : VW) (buf : List α) (f : Nat × Nat → Option α) :
    (v.updCells buf f).length = buf.length :=
  VW.updCells_length v buf f

/-! ### conservation over histories: helper lemmas -/

/-- exchanging two values is an involution (shape shared by `swapIdx` and `swapCellG`) -/
theorem fl_swap_invol {β : Type} [DecidableEq β] (a b x : β) :
    (if (if x = a then b else if x = b then a else x) = a then b
      else if (if x = a then b else if x = b then a else x) = b then a
      else (if x = a then b else if x = b then a else x)) = x := by
  by_cases h1 : x = a
  · rw [if_pos h1]
    by_cases h2 : b = a
    · rw [if_pos h2, h2, h1]
    · rw [if_neg h2, if_pos rfl, h1]
  · rw [if_neg h1]
    by_cases h2 : x = b
    · rw [if_pos h2, if_pos rfl, h2]
    · rw [if_neg h2, if_neg h1, if_neg h2]

theorem fl_swapIdx_inj {a b i j : Nat} (he : swapIdx a b i = swapIdx a b j) : i = j := by
  have hi : swapIdx a b (swapIdx a b i) = i := fl_swap_invol a b i
  have hj : swapIdx a b (swapIdx a b j) = j := fl_swap_invol a b j
  rw [← hi, ← hj, he]

theorem fl_swapCellG_inj {a b x y : Nat × Nat} (he : swapCellG a b x = swapCellG a b y) : x = y := by
  have hx : swapCellG a b (swapCellG a b x) = x := fl_swap_invol a b x
  have hy : swapCellG a b (swapCellG a b y) = y := fl_swap_invol a b y
  rw [← hx, ← hy, he]

/-- a cell bijection of the whole owned array conserves its cells -/
theorem fl_gather_perm (t : TD α) (h : t.Inv) (g : Nat × Nat → Nat × Nat)
    (hg : ∀ c r, c < t.numCols → r < t.numRows → (g (c, r)).1 < t.numCols ∧ (g (c, r)).2 < t.numRows)
    (hinj : ∀ c r c' r', c < t.numCols → r < t.numRows → c' < t.numCols → r' < t.numRows →
      g (c, r) = g (c', r') → (c, r) = (c', r')) :
    (gather t.data (t.asView.mapCells g)).Perm t.data :=
  C05_perm_conserves t.asView t.data (C02_owned_as_view t h).1 g hg hinj

/-- an in-place operation whose result (when it succeeds) is a permutation of the cells conserves them -/
theorem fl_withData_perm (t : TD α) (r : Res (List α)) (hr : ∀ d, r = .ok d → d.Perm t.data) :
    (t.withData r).data.Perm t.data := by
  cases r with
  | error e => exact List.Perm.refl _
  | ok d => exact hr d rfl

theorem fl_perm_swap (m : Mode) (t : TD α) (h : t.Inv) (c1 r1 c2 r2 : Nat) :
    (t.withData (t.swap m c1 r1 c2 r2)).data.Perm t.data := by
  apply fl_withData_perm
  intro d hd
  by_cases hr : c1 < t.numCols ∧ c2 < t.numCols ∧ r1 < t.numRows ∧ r2 < t.numRows
  · have hcw := h.cols_word
    have hrw := h.rows_word
    rw [(C13_swap_owned m t h c1 r1 c2 r2 ⟨by omega, by omega, by omega, by omega⟩).1 hr] at hd
    injection hd with hd
    rw [← hd]
    exact fl_gather_perm t h _ (hs_swapCellG_cells t hr) (fun _ _ _ _ _ _ _ _ he => fl_swapCellG_inj he)
  · rw [hs_swap_reject m t c1 r1 c2 r2 hr] at hd
    cases hd

theorem fl_perm_swapRows (m : Mode) (t : TD α) (h : t.Inv) (r1 r2 : Nat) :
    (t.withData (t.swapRows m r1 r2)).data.Perm t.data := by
  apply fl_withData_perm
  intro d hd
  by_cases hr : r1 < t.numRows ∧ r2 < t.numRows
  · rw [(hs_swapRows m t h r1 r2).1 hr] at hd
    injection hd with hd
    rw [← hd]
    refine fl_gather_perm t h _ (hs_swapRowsG_cells t hr) (fun c r c' r' _ _ _ _ he => ?_)
    simp only [swapRowsG, Prod.mk.injEq] at he
    rw [he.1, fl_swapIdx_inj he.2]
  · rw [(hs_swapRows m t h r1 r2).2 hr] at hd
    cases hd

theorem fl_perm_swapCols (t : TD α) (h : t.Inv) (c1 c2 : Nat) :
    (t.withData (t.acc.swapCols t.data c1 c2)).data.Perm t.data := by
  apply fl_withData_perm
  intro d hd
  by_cases hc : c1 < t.numCols ∧ c2 < t.numCols
  · rw [(hs_swapCols t h c1 c2).1 hc] at hd
    injection hd with hd
    rw [← hd]
    refine fl_gather_perm t h _ (hs_swapColsG_cells t hc) (fun c r c' r' _ _ _ _ he => ?_)
    simp only [swapColsG, Prod.mk.injEq] at he
    rw [he.2, fl_swapIdx_inj he.1]
  · rw [(hs_swapCols t h c1 c2).2 hc] at hd
    cases hd

theorem fl_perm_translate (m : Mode) (t : TD α) (h : t.Inv) (mc mr : Nat) :
    (t.withData (t.acc.translateWithWrap m (t.getUncheckedRow m) t.data (mc, mr))).data.Perm t.data := by
  apply fl_withData_perm
  intro d hd
  by_cases hm : mc ≤ t.numCols ∧ mr ≤ t.numRows
  · rw [C15_translate m t.asView t.data (C02_owned_as_view t h).1 t.acc (C13_acc_owned t h) _
      (hs_getUncheckedRow m t h) (mc, mr) hm] at hd
    injection hd with hd
    rw [← hd]
    have hb := C15_maps_bijective t.numCols t.numRows mc mr _ (List.mem_cons_self ..)
    exact fl_gather_perm t h _ hb.1 hb.2
  · rw [C15_translate_reject m t.acc _ t.data (mc, mr) hm] at hd
    cases hd

theorem fl_perm_flipRows (m : Mode) (t : TD α) (h : t.Inv) :
    (t.withData (t.acc.flipRows m t.data)).data.Perm t.data := by
  rw [hs_flipRows m t h]
  have hb := C15_maps_bijective t.numCols t.numRows 0 0 (flipRowsG t.numRows) (by simp)
  exact fl_gather_perm t h _ hb.1 hb.2

theorem fl_perm_flipCols (t : TD α) (h : t.Inv) :
    (t.withData (t.acc.flipCols t.data)).data.Perm t.data := by
  rw [hs_flipCols t h]
  have hb := C15_maps_bijective t.numCols t.numRows 0 0 (flipColsG t.numCols) (by simp)
  exact fl_gather_perm t h _ hb.1 hb.2

theorem fl_perm_sortByRow (m : Mode) (t : TD α) (h : t.Inv) (le : α → α → Bool) (row : Nat) :
    (t.withData (t.acc.sortByRow (t.indexRow m) t.data le row)).data.Perm t.data := by
  apply fl_withData_perm
  intro d hd
  have hv := (C02_owned_as_view t h).1
  have hs := C16_sort_by_row t.asView t.data hv t.acc (C13_acc_owned t h) (t.indexRow m) (hs_indexRow m t h) le row
  by_cases hr : row < t.asView.numRows
  · rw [hs.1 hr] at hd
    injection hd with hd
    rw [← hd]
    have hin := VW.rowWin_inside hv hr
    have hl : (readWin t.data (t.asView.rowWin row)).length = t.numCols := by
      simp only [readWin, List.length_take, List.length_drop]
      have : (t.asView.rowWin row).len = t.numCols := rfl
      omega
    have hp := stablePerm_perm le (readWin t.data (t.asView.rowWin row))
    rw [hl] at hp
    have hb := C16_cols_bijective t.numCols t.numRows _ hp
    refine fl_gather_perm t h _
      (fun c r hc hr' => ⟨(hb.1 c r hc hr').1, by rw [(hb.1 c r hc hr').2]; exact hr'⟩)
      (fun c r c' r' hc hr' hc' hr'' he => ?_)
    have h2 : r = r' := by
      have := congrArg Prod.snd he
      rw [(hb.1 c r hc hr').2, (hb.1 c' r' hc' hr'').2] at this
      exact this
    subst h2
    rw [hb.2 c c' r hc hc' (congrArg Prod.fst he)]
  · rw [hs.2 hr] at hd
    cases hd

theorem fl_perm_sortByCol (m : Mode) (t : TD α) (h : t.Inv) (le : α → α → Bool) (col : Nat) :
    (t.withData (t.acc.sortByCol (t.col m)
      (fun b r1 r2 => ({ t with data := b } : TD α).swapRows m r1 r2) t.data le col)).data.Perm t.data := by
  apply fl_withData_perm
  intro d hd
  have hv := (C02_owned_as_view t h).1
  have hcw := h.cols_word
  have hcol : ∀ c, c < t.asView.numCols → ∃ it, t.col m c = .ok it ∧ it.WF t.asView.numRows t.data.length ∧
      it.abs t.asView.numRows = (List.range t.asView.numRows).map fun r => t.asView.pos c r := by
    intro c hc
    have hc' : c < t.numCols := hc
    obtain ⟨it, e, hwf, habs⟩ := (C09_col_owned m t h c (by omega)).1 hc'
    refine ⟨it, e, hwf, ?_⟩
    show it.abs t.numRows = _
    rw [habs]
    apply List.map_congr_left
    intro r _
    exact ((C02_owned_as_view t h).2 c r).symm
  have hsw : SwapRowsSpec t.asView t.data.length
      (fun b r1 r2 => ({ t with data := b } : TD α).swapRows m r1 r2) := by
    intro b r1 r2 hb hr1 hr2
    have hbi := h.with_data b hb
    have e := (hs_swapRows m _ hbi r1 r2).1 ⟨hr1, hr2⟩
    have hview : ({ t with data := b } : TD α).asView = t.asView := by
      simp only [TD.asView, TD.win, hb]
    rw [hview] at e
    exact e
  have hs := C17_sort_by_col t.asView t.data hv t.acc (C13_acc_owned t h) (t.col m) hcol _ hsw le col
  by_cases hc : col < t.asView.numCols
  · rw [hs.1 hc] at hd
    injection hd with hd
    rw [← hd]
    have hp := stablePerm_perm le ((List.range t.asView.numRows).filterMap fun r => t.data[t.asView.pos col r]?)
    rw [col_keys_length t.asView t.data hv hc] at hp
    have hb := C17_rows_bijective t.numCols t.numRows _ hp
    refine fl_gather_perm t h _
      (fun c r hc' hr => ⟨by rw [(hb.1 c r hc' hr).2]; exact hc', (hb.1 c r hc' hr).1⟩)
      (fun c r c' r' hc' hr hc'' hr' he => ?_)
    have h1 : c = c' := by
      have := congrArg Prod.fst he
      rw [(hb.1 c r hc' hr).2, (hb.1 c' r' hc'' hr').2] at this
      exact this
    subst h1
    rw [hb.2 c r r' hr hr' (congrArg Prod.snd he)]
  · rw [hs.2 hc] at hd
    cases hd

/-- chaining two conservation steps: removed and supplied elements accumulate -/
theorem fl_chain (A0 A1 A2 R1 R2 S1 S2 : List α) (h1 : (A1 ++ R1).Perm (A0 ++ S1)) (h2 : (A2 ++ R2).Perm (A1 ++ S2)) :
    (A2 ++ (R1 ++ R2)).Perm (A0 ++ (S1 ++ S2)) := by
  have e1 : (A2 ++ (R1 ++ R2)).Perm (A2 ++ R2 ++ R1) := by
    rw [← List.append_assoc]; exact ow_perm_swap_tail A2 R1 R2
  have e2 : (A2 ++ R2 ++ R1).Perm (A1 ++ S2 ++ R1) := List.Perm.append_right R1 h2
  have e3 : (A1 ++ S2 ++ R1).Perm (A1 ++ R1 ++ S2) := ow_perm_swap_tail A1 S2 R1
  have e4 : (A1 ++ R1 ++ S2).Perm (A0 ++ S1 ++ S2) := List.Perm.append_right S2 h1
  have e5 : A0 ++ (S1 ++ S2) = A0 ++ S1 ++ S2 := (List.append_assoc ..).symm
  rw [e5]
  exact ((e1.trans e2).trans e3).trans e4

theorem fl_step_removeRow (m : Mode) (t : TD α) (h : t.Inv) (i : Nat) :
    ((hstep m t (.removeRow i)).data ++ (hflow m t (.removeRow i)).2).Perm (t.data ++ (hflow m t (.removeRow i)).1) := by
  by_cases hi : i < t.numRows
  · obtain ⟨d, hd, _⟩ := (hs_removeRow m t h i).1 hi
    simp only [hstep, hflow, hd, List.append_nil]
    exact C05_remove_row m t h i hi d hd
  · simp only [hstep, hflow, (hs_removeRow m t h i).2 hi]
    exact List.Perm.refl _

theorem fl_step_removeCol (m : Mode) (t : TD α) (h : t.Inv) (i : Nat) :
    ((hstep m t (.removeCol i)).data ++ (hflow m t (.removeCol i)).2).Perm (t.data ++ (hflow m t (.removeCol i)).1) := by
  by_cases hi : i < t.numCols
  · obtain ⟨d, hd, hb, hc, hnc, hnr, _, hwf, habs⟩ := C07_remove_col m t h i hi
    obtain ⟨t', dropped, e, _, hdr, hdata, _⟩ := C07_remove_col_drop m t h i hi d hb hc hnc hnr t.numRows hwf
    simp only [hstep, hflow, hd, e, List.append_nil]
    rw [hdata, hdr, habs, List.filterMap_map]
    exact C05_remove_col t h i hi
  · simp only [hstep, hflow, (hs_removeCol m t h i).2 hi]
    exact List.Perm.refl _

theorem fl_flow_popRow (m : Mode) (t : TD α) (h : t.Inv) :
    hflow m t .popRow = (if t.numRows = 0 then ([], []) else hflow m t (.removeRow (t.numRows - 1))) := by
  by_cases h0 : t.numRows = 0
  · rw [if_pos h0]
    simp only [hflow, (C07_pop_row m t h).1 h0]
  · rw [if_neg h0]
    simp only [hflow, (C07_pop_row m t h).2 h0]
    cases t.removeRow m (t.numRows - 1) <;> rfl

theorem fl_flow_popCol (m : Mode) (t : TD α) (h : t.Inv) :
    hflow m t .popCol = (if t.numCols = 0 then ([], []) else hflow m t (.removeCol (t.numCols - 1))) := by
  by_cases h0 : t.numCols = 0
  · rw [if_pos h0]
    simp only [hflow, (C07_pop_col m t h).1 h0]
  · rw [if_neg h0]
    simp only [hflow, (C07_pop_col m t h).2 h0]
    cases t.removeCol m (t.numCols - 1) <;> rfl

/-- **Conservation across one operation of a history** (any `HOp`, any arguments, also rejected calls and panicking iterators):
    what the array holds afterwards plus what left it is exactly what it held before plus what the caller supplied. -/
theorem C05_step_conserves (m : Mode) (t : TD α) (h : t.Inv) (op : HOp α) (hop : op.spareOk) :
    ((hstep m t op).data ++ (hflow m t op).2).Perm (t.data ++ (hflow m t op).1) := by
  have inplace : ∀ d : List α, d.Perm t.data → (d ++ []).Perm (t.data ++ []) := fun d hd => by
    rw [List.append_nil, List.append_nil]; exact hd
  cases op with
  | fromVec c r v =>
    by_cases hs : shapeOk c r ∧ c * r = v.length
    · obtain ⟨t', e, _, _, _, hdata⟩ := (C20_from_vec c r v).1 hs
      simp only [hstep, hflow, e]
      rw [hdata]
      exact List.perm_append_comm
    · simp only [hstep, hflow, (C20_from_vec c r v).2 hs]
      exact List.Perm.refl _
  | insertRow i it spare =>
    have hp := (C11_insert_row m histCap t h i it spare (Or.inl hop) histCap_lt).2.2.2
    show ((t.insertRow m histCap i it spare).t.data ++ ((t.insertRow m histCap i it spare).leaked
      ++ (t.insertRow m histCap i it spare).rest.filterMap id)).Perm (t.data ++ it.events.filterMap id)
    rw [← List.append_assoc]
    exact hp
  | insertCol i it spare =>
    have hp := (C11_insert_col m histCap t h i it spare (Or.inl hop) histCap_lt).2.2.2
    show ((t.insertCol m histCap i it spare).t.data ++ ((t.insertCol m histCap i it spare).leaked
      ++ (t.insertCol m histCap i it spare).rest.filterMap id)).Perm (t.data ++ it.events.filterMap id)
    rw [← List.append_assoc]
    exact hp
  | removeRow i => exact fl_step_removeRow m t h i
  | removeCol i => exact fl_step_removeCol m t h i
  | popRow =>
    rw [hs_popRow m t h, fl_flow_popRow m t h]
    by_cases h0 : t.numRows = 0
    · rw [if_pos h0, if_pos h0]
    · rw [if_neg h0, if_neg h0]; exact fl_step_removeRow m t h _
  | popCol =>
    rw [hs_popCol m t h, fl_flow_popCol m t h]
    by_cases h0 : t.numCols = 0
    · rw [if_pos h0, if_pos h0]
    · rw [if_neg h0, if_neg h0]; exact fl_step_removeCol m t h _
  | clear =>
    show (([] : List α) ++ t.data).Perm (t.data ++ [])
    exact List.perm_append_comm
  | swapDimensions => exact inplace _ (List.Perm.refl _)
  | capacityCall => exact inplace _ (List.Perm.refl _)
  | fill x =>
    show (t.fill x ++ t.data).Perm (t.data ++ List.replicate t.data.length x)
    have : t.fill x = List.replicate t.data.length x := by simp [TD.fill]
    rw [this]
    exact List.perm_append_comm
  | swap c1 r1 c2 r2 => exact inplace _ (fl_perm_swap m t h c1 r1 c2 r2)
  | swapRows r1 r2 => exact inplace _ (fl_perm_swapRows m t h r1 r2)
  | swapCols c1 c2 => exact inplace _ (fl_perm_swapCols t h c1 c2)
  | copyFromSlice src =>
    by_cases hl : t.data.length = src.length
    · have e : t.copyFromSlice src = .ok src := by
        unfold TD.copyFromSlice
        rw [if_neg (by simpa using hl)]
        rfl
      simp only [hstep, hflow, e, TD.withData]
      exact List.perm_append_comm
    · have e : t.copyFromSlice src = .error .panic := by
        unfold TD.copyFromSlice
        rw [if_pos hl]
        rfl
      simp only [hstep, hflow, e, TD.withData]
      exact List.Perm.refl _
  | translate mc mr => exact inplace _ (fl_perm_translate m t h mc mr)
  | flipRows => exact inplace _ (fl_perm_flipRows m t h)
  | flipCols => exact inplace _ (fl_perm_flipCols t h)
  | sortByRow le row => exact inplace _ (fl_perm_sortByRow m t h le row)
  | sortByCol le col => exact inplace _ (fl_perm_sortByCol m t h le col)

/-- **Conservation across any history**: every element ever placed in the array is, at the end, either still in the array or
    among the removed ones — exactly once (a permutation; with `C05_exactly_once` for duplicate-free ids: never twice, never
    while still reachable). -/
theorem C05_history_conserves (m : Mode) (t : TD α) (h : t.Inv) (ops : List (HOp α)) (hops : ∀ op ∈ ops, op.spareOk) :
    ((hrun m t ops).data ++ (hflowRun m t ops).2).Perm (t.data ++ (hflowRun m t ops).1) := by
  induction ops generalizing t with
  | nil => exact List.Perm.refl _
  | cons op ops ih =>
    have hop := hops op (List.mem_cons_self ..)
    have h1 := C05_step_conserves m t h op hop
    have h2 := ih (hstep m t op) (C01_step_inv m t h op hop) (fun o ho => hops o (List.mem_cons_of_mem _ ho))
    show ((hrun m (hstep m t op) ops).data ++ ((hflow m t op).2 ++ (hflowRun m (hstep m t op) ops).2)).Perm
      (t.data ++ ((hflow m t op).1 ++ (hflowRun m (hstep m t op) ops).1))
    exact fl_chain _ _ _ _ _ _ _ h1 h2

end Toodee
