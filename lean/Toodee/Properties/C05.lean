import Toodee.Spec.Grid
import Toodee.Spec.History
import Toodee.Spec.Cells
import Toodee.Proofs.OwnershipLemmas
import Toodee.Proofs.HistoryLemmas
import Toodee.Properties.C01
/-
  C05 — Every element is dropped exactly once (the accounting law).

  Ownership is by position: the array owns exactly the cells `data[0..len)`.  For every operation the multiset of elements is
  conserved: what the array owns afterwards, plus what was handed to the caller, plus what the crate dropped, is exactly what
  the array owned before plus what was supplied — a `List.Perm`, for an arbitrary element type; instantiating elements with
  unique ids turns it into "exactly once": the general lemma `C05_exactly_once` shows that the parts of a permutation of a
  duplicate-free list are pairwise disjoint (never twice, never while still reachable).
  The laws for insert / remove are corollaries of the refinement theorems C06 / C07; in-place permutations (swap, sort,
  translate, flips) conserve the buffer outright; overwrites (fill, copies, indexed writes) drop exactly the replaced cells.
  That Rust runs `Drop` where the model says is established on explored histories by the harness's ledger (partial, stated).
-/
namespace Toodee
variable {α : Type}

/-- parts of a permutation of a duplicate-free list share no element -/
theorem C05_exactly_once (a b l : List α) (hp : (a ++ b).Perm l) (hn : l.Nodup) :
    a.Nodup ∧ b.Nodup ∧ ∀ x, x ∈ a → x ∉ b := by
  have h := (hp.nodup_iff).2 hn
  rw [List.nodup_append] at h
  exact ⟨h.1, h.2.1, fun x hx hb => h.2.2 x hx x hb rfl⟩

theorem C05_insert_row (m : Mode) (cap : Nat) (t : TD α) (h : t.Inv) (i : Nat) (xs spare : List α)
    (hi : i ≤ t.numRows) (hlen : t.numRows = 0 ∨ xs.length = t.numCols)
    (hcap : t.data.length + xs.length ≤ cap) (hsp : xs.length ≤ spare.length)
    (hword : t.data.length + xs.length < WORD) :
    (t.insertRow m cap i (honest xs) spare).t.data.Perm (t.data ++ xs) := by
  rw [insertRow_honest m cap t h i xs spare hi hlen hcap hsp hword]
  show (t.data.take (i * t.numCols) ++ xs ++ t.data.drop (i * t.numCols)).Perm (t.data ++ xs)
  have h1 := ow_perm_swap_tail (t.data.take (i * t.numCols)) xs (t.data.drop (i * t.numCols))
  rw [List.take_append_drop] at h1
  exact h1

theorem C05_insert_col (m : Mode) (cap : Nat) (t : TD α) (h : t.Inv) (i : Nat) (xs spare : List α)
    (hi : i ≤ t.numCols) (hlen : t.numCols = 0 ∨ xs.length = t.numRows)
    (hcap : t.data.length + xs.length ≤ cap) (hsp : xs.length ≤ spare.length)
    (hword : t.data.length + xs.length < WORD) :
    (t.insertCol m cap i (honest xs) spare).t.data.Perm (t.data ++ xs) := by
  obtain ⟨_, _, _, _, hdata, _, _⟩ := C06_insert_col_ok m cap t h i xs spare hi hlen hcap hsp hword
  rw [hdata]
  by_cases hc : t.numCols = 0
  · rw [if_pos hc]
    have : t.data = [] := List.eq_nil_of_length_eq_zero (by rw [h.len, hc, Nat.zero_mul])
    rw [this]
    exact List.Perm.refl _
  · rw [if_neg hc]
    have hx : xs.length = t.grid.length := by
      rw [h.grid_length]
      rcases hlen with h1 | h1
      · exact absurd h1 hc
      · exact h1
    have hp := ow_zipWith_insAt_perm i t.grid xs hx
    rw [← h.data_eq_flatten_grid] at hp
    exact hp

/-- `remove_row`: kept cells + the drained row (whether yielded to the caller or dropped with the drain) = the old cells -/
theorem C05_remove_row (m : Mode) (t : TD α) (h : t.Inv) (i : Nat) (hi : i < t.numRows)
    (d : DrainRow α) (hd : t.removeRow m i = .ok d) :
    (d.drop.1.data ++ d.items).Perm t.data := by
  have he := ow_removeRow_eq m t h i hi
  rw [hd] at he
  injection he with hdd
  subst hdd
  show (t.data.take (i * t.numCols) ++ t.data.drop (i * t.numCols + t.numCols)
    ++ (t.data.drop (i * t.numCols)).take t.numCols).Perm t.data
  have hs := ow_data_split_row t.data (i * t.numCols) t.numCols
  conv => rhs; rw [hs]
  exact ow_perm_swap_tail _ _ _

/-- `remove_col`: kept cells + the column's cells = the old cells -/
theorem C05_remove_col (t : TD α) (h : t.Inv) (i : Nat) (hi : i < t.numCols) :
    ((t.grid.map fun ρ => ρ.eraseIdx i).flatten ++ (List.range t.numRows).filterMap (fun r => t.data[t.pos i r]?)).Perm t.data := by
  rw [ow_col_cells t h i hi]
  have hp := ow_eraseIdx_col_perm t.numCols i hi t.grid t.grid_row_length
  rw [← h.data_eq_flatten_grid] at hp
  exact hp

/-- a cell permutation of a view conserves the whole buffer -/
theorem C05_perm_conserves (v : VW) (buf : List α) (h : v.Inv buf.length) (g : Nat × Nat → Nat × Nat)
    (hg : ∀ c r, c < v.numCols → r < v.numRows → (g (c, r)).1 < v.numCols ∧ (g (c, r)).2 < v.numRows)
    (hinj : ∀ c r c' r', c < v.numCols → r < v.numRows → c' < v.numCols → r' < v.numRows →
      g (c, r) = g (c', r') → (c, r) = (c', r')) :
    (gather buf (v.mapCells g)).Perm buf :=
  ow_gather_perm buf _ (fun _ hp => VW.mapCells_lt h g hg hp)
    (fun p q _ _ he => ow_mapCells_inj h g hg hinj p q he)

/-- an overwrite keeps the buffer's length: one old cell leaves (is dropped) for each new cell that enters -/
theorem C05_upd_length (v : VW) (buf : List α) (f : Nat × Nat → Option α) :
    (v.updCells buf f).length = buf.length :=
  VW.updCells_length v buf f

/-! ### the accounting law over histories -/

/-- an overwrite of cells of an owned array conserves elements: the new buffer plus the replaced cells are the old buffer plus the
    written values -/
theorem C05_overwrite_conserves (t : TD α) (h : t.Inv) (f : Nat × Nat → Option α) :
    (t.asView.updCells t.data f ++ t.overwritten f).Perm (t.data ++ t.written f) := by
  sorry

/-- **one call conserves elements**: what the array owns afterwards, plus what was handed to the caller, plus what the crate
    dropped, plus what was leaked, is exactly what the array owned before plus what the call took from the caller -/
theorem C05_step_conserves (e : HEnv) (he : e.ok) (t : TD α) (h : t.Inv) (op : HOp α) (hop : op.wf) :
    ((hstep e t op).data ++ (hflow e t op).handed ++ (hflow e t op).dropped ++ (hflow e t op).leaked).Perm
      (t.data ++ (hflow e t op).supplied) := by
  sorry

/-- **any history conserves elements** -/
theorem C05_history_conserves (e : HEnv) (he : e.ok) (t : TD α) (h : t.Inv) (ops : List (HOp α)) (hops : ∀ op ∈ ops, op.wf) :
    ((hrun e t ops).data ++ (hflowRun e t ops).handed ++ (hflowRun e t ops).dropped ++ (hflowRun e t ops).leaked).Perm
      (t.data ++ (hflowRun e t ops).supplied) := by
  sorry

/-- a call during which no caller code panics, no iterator lies and nothing is forgotten leaks nothing -/
theorem C05_step_no_leak (e : HEnv) (he : e.ok) (t : TD α) (h : t.Inv) (op : HOp α) (hop : op.wf) (hon : op.honest) :
    (hflow e t op).leaked = [] := by
  sorry

theorem C05_history_no_leak (e : HEnv) (he : e.ok) (t : TD α) (h : t.Inv) (ops : List (HOp α)) (hops : ∀ op ∈ ops, op.wf)
    (hon : ∀ op ∈ ops, op.honest) :
    (hflowRun e t ops).leaked = [] := by
  sorry

/-- **the second sentence of the property**: after a history in which nothing panics and nothing is leaked, once the array is
    dropped (`clear` drops the same cells) no element is left undropped: everything the array ever held or was given has been
    dropped by the crate or handed to the caller — each exactly once (a permutation) -/
theorem C05_history_all_accounted (e : HEnv) (he : e.ok) (t : TD α) (h : t.Inv) (ops : List (HOp α)) (hops : ∀ op ∈ ops, op.wf)
    (hon : ∀ op ∈ ops, op.honest) :
    ((hflowRun e t (ops ++ [.clear])).handed ++ (hflowRun e t (ops ++ [.clear])).dropped).Perm
      (t.data ++ (hflowRun e t (ops ++ [.clear])).supplied) := by
  sorry

/-- with unique element identities: along any history no element is both still in the array and already handed out / dropped /
    leaked, and none is handed out, dropped or leaked twice -/
theorem C05_history_exactly_once (e : HEnv) (he : e.ok) (t : TD α) (h : t.Inv) (ops : List (HOp α)) (hops : ∀ op ∈ ops, op.wf)
    (hnd : (t.data ++ (hflowRun e t ops).supplied).Nodup) :
    ((hrun e t ops).data ++ (hflowRun e t ops).handed ++ (hflowRun e t ops).dropped ++ (hflowRun e t ops).leaked).Nodup := by
  sorry

/-- non-vacuity: a concrete history with its flow -/
example :
    let e : HEnv := ⟨.release, 1000, 1000⟩
    let ops : List (HOp Nat) :=
      [.insertRow 0 (honest [1, 2, 3]) [0, 0, 0], .insertRow 1 (honest [4, 5, 6]) [0, 0, 0], .removeCol 1 [true],
       .inplace (.set 0 0 9), .takeInto 1]
    hflowRun e (TD.default : TD Nat) ops = ⟨[1, 2, 3, 4, 5, 6, 9], [2, 9], [5, 1, 3, 4, 6], []⟩ := by
  sorry

end Toodee
