import Toodee.Spec.Cells
import Toodee.Impl.Copy
/-
  C14 — Copy operations transfer exactly the source cells.

  `copy_from_slice` / `clone_from_slice` (one transcription), `copy_from_toodee` / `clone_from_toodee` (one transcription),
  each as trait default (`Acc.*`: views and third-party types) and as `TooDee` override (`TD.*`); `copy_within` (default,
  never overridden).  Sizes equal ⇒ the destination's cell `(c,r)` becomes the source's cell `(c,r)` (row-major for a
  slice) and every position outside the destination view is unchanged (`updCells`); sizes differ ⇒ `panic`; every
  destination shape incl. `(0,0)`.  `copy_within`: rectangles fit ⇒ destination rectangle = prior source rectangle for
  *every* relative placement (overlaps included), everything else unchanged; otherwise `panic`.  Never `ub`; both modes.
-/
namespace Toodee
variable {α : Type}

/-- default `copy_from_slice` / `clone_from_slice` -/
theorem C14_copy_from_slice_default (m : Mode) (v : VW) (buf : List α) (h : v.Inv buf.length) (a : Acc)
    (ha : a.Of v buf.length) (src : List α) :
    (v.numCols * v.numRows = src.length →
      a.copyFromSlice m buf src = .ok (v.updCells buf fun cr => src[cr.2 * v.numCols + cr.1]?)) ∧
    (v.numCols * v.numRows ≠ src.length → src.length < WORD → a.copyFromSlice m buf src = .error .panic) := by
  sorry

/-- `TooDee` override -/
theorem C14_copy_from_slice_owned (t : TD α) (h : t.Inv) (src : List α) :
    (t.numCols * t.numRows = src.length →
      t.copyFromSlice src = .ok src ∧ src = t.asView.updCells t.data fun cr => src[cr.2 * t.numCols + cr.1]?) ∧
    (t.numCols * t.numRows ≠ src.length → t.copyFromSlice src = .error .panic) := by
  sorry

/-- default `copy_from_toodee` / `clone_from_toodee`; the source is any receiver `sv` over its own buffer `sbuf` -/
theorem C14_copy_from_toodee_default (v : VW) (buf : List α) (h : v.Inv buf.length) (a : Acc)
    (ha : a.Of v buf.length) (sv : VW) (sbuf : List α) (hs : sv.Inv sbuf.length) (sa : Acc) (hsa : sa.Of sv sbuf.length) :
    ((v.numCols = sv.numCols ∧ v.numRows = sv.numRows) →
      a.copyFromTooDee buf sa sbuf = .ok (v.updCells buf fun cr => sbuf[sv.pos cr.1 cr.2]?)) ∧
    (¬ (v.numCols = sv.numCols ∧ v.numRows = sv.numRows) → a.copyFromTooDee buf sa sbuf = .error .panic) := by
  sorry

/-- `TooDee` override of `copy_from_toodee` / `clone_from_toodee` -/
theorem C14_copy_from_toodee_owned (t : TD α) (h : t.Inv) (sv : VW) (sbuf : List α) (hs : sv.Inv sbuf.length)
    (sa : Acc) (hsa : sa.Of sv sbuf.length) :
    ((t.numCols = sv.numCols ∧ t.numRows = sv.numRows) →
      t.copyFromTooDee sa sbuf = .ok (t.asView.updCells t.data fun cr => sbuf[sv.pos cr.1 cr.2]?)) ∧
    (¬ (t.numCols = sv.numCols ∧ t.numRows = sv.numRows) → t.copyFromTooDee sa sbuf = .error .panic) := by
  sorry

/-- the two rectangles of `copy_within` fit -/
def rectsFit (C R : Nat) (tl br dest : Nat × Nat) : Prop :=
  tl.1 ≤ br.1 ∧ tl.2 ≤ br.2 ∧ br.1 ≤ C ∧ br.2 ≤ R ∧ dest.1 + (br.1 - tl.1) ≤ C ∧ dest.2 + (br.2 - tl.2) ≤ R

instance (C R : Nat) (tl br dest : Nat × Nat) : Decidable (rectsFit C R tl br dest) := by
  unfold rectsFit; infer_instance

/-- what `copy_within` must write: destination cell `(c,r)` gets the *prior* source cell at the same offset -/
def copyWithinCells (v : VW) (buf : List α) (tl br dest : Nat × Nat) : Nat × Nat → Option α := fun cr =>
  if dest.1 ≤ cr.1 ∧ cr.1 < dest.1 + (br.1 - tl.1) ∧ dest.2 ≤ cr.2 ∧ cr.2 < dest.2 + (br.2 - tl.2) then
    buf[v.pos (cr.1 - dest.1 + tl.1) (cr.2 - dest.2 + tl.2)]?
  else none

/-- `copy_within`: `indexRowMut` is the implementor's `IndexMut<usize>`, which by C02 returns the row window -/
theorem C14_copy_within (m : Mode) (v : VW) (buf : List α) (h : v.Inv buf.length) (a : Acc) (ha : a.Of v buf.length)
    (indexRowMut : Nat → Res Win) (hidx : ∀ r, r < v.numRows → indexRowMut r = .ok (v.rowWin r))
    (tl br dest : Nat × Nat)
    (hw : tl.1 < WORD ∧ tl.2 < WORD ∧ br.1 < WORD ∧ br.2 < WORD ∧ dest.1 < WORD ∧ dest.2 < WORD) :
    (rectsFit v.numCols v.numRows tl br dest →
      a.copyWithin m indexRowMut buf tl br dest = .ok (v.updCells buf (copyWithinCells v buf tl br dest))) ∧
    (¬ rectsFit v.numCols v.numRows tl br dest →
      a.copyWithin m indexRowMut buf tl br dest = .error .panic) := by
  sorry

end Toodee
