import Toodee.Spec.OpsSpec
import Toodee.Spec.Cells
import Toodee.Impl.Copy
import Toodee.Proofs.CopyLemmas
import Toodee.Properties.C13
/-
  C14 — Copy operations transfer exactly the source cells.

  `copy_from_slice` / `clone_from_slice` (one transcription), `copy_from_toodee` / `clone_from_toodee` (one transcription),
  each as trait default (`Acc.*`: views and third-party types) and as `TooDee` override (`TD.*`); `copy_within` (default,
  never overridden).  Sizes equal ⇒ the destination's cell `(c,r)` becomes the source's cell `(c,r)` (row-major for a
  slice) and every position outside the destination view is unchanged (`updCells`); sizes differ ⇒ `panic`; every
  destination shape incl. `(0,0)`.  `copy_within`: rectangles fit ⇒ destination rectangle = prior source rectangle for
  *every* relative placement (overlaps included), everything else unchanged; otherwise `panic`.  Never `ub`; both modes.
-/
namespace Toodee
variable {α : Type}

/-- default `copy_from_slice` / `clone_from_slice` -/
theorem C14_copy_from_slice_default (m : Mode) (v : VW) (buf : List α) (h : v.Inv buf.length) (a : Acc)
    (ha : a.Of v buf.length) (src : List α) :
    (v.numCols * v.numRows = src.length →
      a.copyFromSlice m buf src = .ok (v.updCells buf fun cr => src[cr.2 * v.numCols + cr.1]?)) ∧
    (v.numCols * v.numRows ≠ src.length → src.length < WORD → a.copyFromSlice m buf src = .error .panic) := by
  have harea : v.numCols * v.numRows < WORD := by
    have := h.area_le; have := h.inside; have := h.word; omega
  simp only [Acc.copyFromSlice, ha.cols, ha.rows, umul_ok m _ _ harea, ok_bind]
  constructor
  · intro hlen
    rw [if_neg (fun hne => hne hlen)]
    by_cases hc0 : v.numCols = 0
    · rw [if_pos hc0, pure_eq]
      congr 1
      symm
      apply updCells_eq_self
      intro c r hc; omega
    · have hCpos : 0 < v.numCols := Nat.pos_of_ne_zero hc0
      have hdiv : src.length / v.numCols = v.numRows := by
        rw [← hlen, Nat.mul_div_cancel_left _ hCpos]
      simp only [hc0, if_false, pure_eq, ok_bind, ha.collect_rowWins, chunksExact, hdiv]
      rw [zipCopy_rows h (fun i => (src.drop (i * v.numCols)).take v.numCols)]
      · congr 1
        apply updCells_congr
        intro c r hc hr
        simp [hc]
      · intro r hr
        have := row_end_le (C := v.numCols) hr
        simp only [List.length_take, List.length_drop]
        omega
  · intro hlen _
    simp [hlen]

/-- `TooDee` override -/
theorem C14_copy_from_slice_owned (t : TD α) (h : t.Inv) (src : List α) :
    (t.numCols * t.numRows = src.length →
      t.copyFromSlice src = .ok src ∧ src = t.asView.updCells t.data fun cr => src[cr.2 * t.numCols + cr.1]?) ∧
    (t.numCols * t.numRows ≠ src.length → t.copyFromSlice src = .error .panic) := by
  have hlenT := h.len
  constructor
  · intro hlen
    have hls : t.data.length = src.length := by omega
    refine ⟨by simp [TD.copyFromSlice, hls], ?_⟩
    obtain ⟨hinv, hpos⟩ := TD.asView_inv t h
    apply List.ext_getElem?
    intro p
    rw [updCells_getElem?]
    by_cases hp : p < src.length
    · have hC : 0 < t.numCols := by
        apply Nat.pos_of_ne_zero
        intro h0
        rw [h0, Nat.zero_mul] at hlen
        omega
      have hc : p % t.numCols < t.asView.numCols := Nat.mod_lt _ hC
      have hr : p / t.numCols < t.asView.numRows := by
        apply (Nat.div_lt_iff_lt_mul hC).2
        rw [Nat.mul_comm]
        show p < t.numCols * t.numRows
        omega
      have hpe : t.asView.pos (p % t.numCols) (p / t.numCols) = p := by
        rw [hpos]; exact Nat.div_add_mod' p t.numCols
      have hco := hinv.coord_pos hc hr
      rw [hpe] at hco
      rw [hco, List.getElem?_eq_getElem (show p < t.data.length by omega)]
      simp only [Option.map_some]
      rw [Nat.div_add_mod', List.getElem?_eq_getElem hp]
      simp
    · rw [List.getElem?_eq_none (by omega), List.getElem?_eq_none (by omega)]
      rfl
  · intro hne
    have hls : t.data.length ≠ src.length := by omega
    simp [TD.copyFromSlice, hls]

/-- default `copy_from_toodee` / `clone_from_toodee`; the source is any receiver `sv` over its own buffer `sbuf` -/
theorem C14_copy_from_toodee_default (v : VW) (buf : List α) (h : v.Inv buf.length) (a : Acc)
    (ha : a.Of v buf.length) (sv : VW) (sbuf : List α) (hs : sv.Inv sbuf.length) (sa : Acc) (hsa : sa.Of sv sbuf.length) :
    ((v.numCols = sv.numCols ∧ v.numRows = sv.numRows) →
      a.copyFromTooDee buf sa sbuf = .ok (v.updCells buf fun cr => sbuf[sv.pos cr.1 cr.2]?)) ∧
    (¬ (v.numCols = sv.numCols ∧ v.numRows = sv.numRows) → a.copyFromTooDee buf sa sbuf = .error .panic) := by
  simp only [Acc.copyFromTooDee, ha.cols, ha.rows, hsa.cols, hsa.rows]
  constructor
  · intro hd
    rw [if_neg (fun hn => hn hd)]
    simp only [ha.collect_rowWins, hsa.collect_rowWins, ok_bind, List.map_map, ← hd.2]
    rw [zipCopy_rows h (readWin sbuf ∘ sv.rowWin)]
    · congr 1
      apply updCells_congr
      intro c r hc hr
      have hpe : sv.pos 0 r + c = sv.pos c r := by unfold VW.pos; omega
      simp only [Function.comp, readWin_getElem?, VW.rowWin, ← hd.1, if_pos hc, hpe]
    · intro r hr
      rw [hd.2] at hr
      have := hs.seg_inside (c := 0) (w := sv.numCols) hr (by omega)
      rw [Function.comp, readWin_length _ _ this, hd.1]
      rfl
  · intro hd
    rw [if_pos hd]
    rfl

/-- `TooDee` override of `copy_from_toodee` / `clone_from_toodee` -/
theorem C14_copy_from_toodee_owned (t : TD α) (h : t.Inv) (sv : VW) (sbuf : List α) (hs : sv.Inv sbuf.length)
    (sa : Acc) (hsa : sa.Of sv sbuf.length) :
    ((t.numCols = sv.numCols ∧ t.numRows = sv.numRows) →
      t.copyFromTooDee sa sbuf = .ok (t.asView.updCells t.data fun cr => sbuf[sv.pos cr.1 cr.2]?)) ∧
    (¬ (t.numCols = sv.numCols ∧ t.numRows = sv.numRows) → t.copyFromTooDee sa sbuf = .error .panic) := by
  simp only [TD.copyFromTooDee, hsa.cols, hsa.rows]
  constructor
  · intro hd
    obtain ⟨hinv, _⟩ := TD.asView_inv t h
    rw [if_neg (fun hn => hn hd)]
    simp only [hsa.collect_rowWins, ok_bind, List.map_map, ← hd.2]
    have hwin : t.win = ⟨0 * t.numCols,
        ((List.range t.numRows).map (readWin sbuf ∘ sv.rowWin)).length * t.numCols⟩ := by
      simp [TD.win, h.len, Nat.mul_comm]
    have hrows : (List.range' 0 ((List.range t.numRows).map (readWin sbuf ∘ sv.rowWin)).length).map
        (fun i => (⟨i * t.numCols, t.numCols⟩ : Win)) = (List.range t.asView.numRows).map t.asView.rowWin := by
      rw [List.length_map, List.length_range, ← List.range_eq_range']
      apply List.map_congr_left
      intro i _
      simp [VW.rowWin, VW.pos, TD.asView, TD.win]
    rw [hwin, tdCopyLoop_eq_zipCopy, hrows]
    rw [show t.numRows = t.asView.numRows from rfl, zipCopy_rows hinv (readWin sbuf ∘ sv.rowWin)]
    · congr 1
      apply updCells_congr
      intro c r hc hr
      have hpe : sv.pos 0 r + c = sv.pos c r := by unfold VW.pos; omega
      have hc' : c < sv.numCols := by rw [← hd.1]; exact hc
      simp only [Function.comp, readWin_getElem?, VW.rowWin, if_pos hc', hpe]
    · intro r hr
      have hr' : r < sv.numRows := by rw [← hd.2]; exact hr
      have := hs.seg_inside (c := 0) (w := sv.numCols) hr' (by omega)
      rw [Function.comp, readWin_length _ _ this]
      exact hd.1.symm
  · intro hd
    rw [if_pos hd]
    rfl

/-- `copy_within`: `indexRowMut` is the implementor's `IndexMut<usize>`, which by C02 returns the row window -/
theorem C14_copy_within (m : Mode) (v : VW) (buf : List α) (h : v.Inv buf.length) (a : Acc) (ha : a.Of v buf.length)
    (indexRowMut : Nat → Res Win) (hidx : ∀ r, r < v.numRows → indexRowMut r = .ok (v.rowWin r))
    (tl br dest : Nat × Nat)
    (hw : tl.1 < WORD ∧ tl.2 < WORD ∧ br.1 < WORD ∧ br.2 < WORD ∧ dest.1 < WORD ∧ dest.2 < WORD) :
    (rectsFit v.numCols v.numRows tl br dest →
      a.copyWithin m indexRowMut buf tl br dest = .ok (v.updCells buf (copyWithinCells v buf tl br dest))) ∧
    (¬ rectsFit v.numCols v.numRows tl br dest →
      a.copyWithin m indexRowMut buf tl br dest = .error .panic) := by
  have hCw := h.cols_word
  have hRw := h.rows_word
  obtain ⟨tl1, tl2⟩ := tl
  obtain ⟨br1, br2⟩ := br
  obtain ⟨d1, d2⟩ := dest
  simp only [Acc.copyWithin, ha.cols, ha.rows, rectsFit]
  constructor
  · rintro ⟨h1, h2, h3, h4, h5, h6⟩
    have g1 : d1 ≤ v.numCols := by omega
    have g2 : d2 ≤ v.numRows := by omega
    have g3 : br1 - tl1 ≤ v.numCols - d1 := by omega
    have g4 : br2 - tl2 ≤ v.numRows - d2 := by omega
    simp only [h1, h2, h3, h4, g1, g2, g3, g4, not_true_eq_false, if_false, usub_ok, ok_bind]
    have hrow : ∀ r r2, r < v.numRows → r2 < v.numRows → r ≠ r2 →
        a.rowPairMut m r r2 = .ok (v.rowWin r, v.rowWin r2) := fun r r2 hr hr2 hne =>
      ((C13_row_pair m v buf.length h a ha r r2 ⟨by omega, by omega⟩).1 ⟨hr, hr2, hne⟩).1
    have hmem := cw_rows_mem tl2 br2
    by_cases hlt : tl2 < d2
    · -- `Less`: bottom-up
      rw [if_pos hlt, usub_ok m _ _ (Nat.le_of_lt hlt), ok_bind]
      apply cw_fold_all h (tl1, tl2) (br1, br2) (d1, d2) h1 h3 h4 h5 h6
      · intro b r hb hr
        rw [List.mem_reverse, hmem] at hr
        have e : r + (d2 - tl2) = r - tl2 + d2 := by omega
        rw [uadd_ok m _ _ (by omega), ok_bind, e]
        exact copyWithinRowPair_ok h m a b hb (hrow _ _ (by omega) (by omega) (by omega)) (by omega) h1 h3 h5
      · intro x; rw [List.mem_reverse]; exact hmem x
      · rw [List.pairwise_reverse, List.pairwise_map]
        exact List.Pairwise.imp (fun {i j} (hij : i < j) => by simp only; omega) List.pairwise_lt_range
    · rw [if_neg hlt]
      by_cases hgt : tl2 > d2
      · -- `Greater`: top-down
        rw [if_pos hgt, usub_ok m _ _ (Nat.le_of_lt hgt), ok_bind]
        apply cw_fold_all h (tl1, tl2) (br1, br2) (d1, d2) h1 h3 h4 h5 h6
        · intro b r hb hr
          rw [hmem] at hr
          have e : r - (tl2 - d2) = r - tl2 + d2 := by omega
          rw [usub_ok m _ _ (by omega), ok_bind, e]
          exact copyWithinRowPair_ok h m a b hb (hrow _ _ (by omega) (by omega) (by omega)) (by omega) h1 h3 h5
        · exact hmem
        · rw [List.pairwise_map]
          exact List.Pairwise.imp (fun {i j} (hij : i < j) => by simp only; omega) List.pairwise_lt_range
      · -- `Equal`: per-row memmove
        rw [if_neg hgt]
        have heq : tl2 = d2 := by omega
        apply cw_fold_all h (tl1, tl2) (br1, br2) (d1, d2) h1 h3 h4 h5 h6
        · intro b r hb hr
          rw [hmem] at hr
          have e : r - tl2 + d2 = r := by omega
          rw [hidx r (by omega), ok_bind, e]
          exact sliceCopyWithin_ok v b h1 h3 h5
        · exact hmem
        · rw [List.pairwise_map]
          exact List.Pairwise.imp (fun {i j} (hij : i < j) => by simp only; omega) List.pairwise_lt_range
  · intro hn
    by_cases h1 : tl1 ≤ br1
    · by_cases h2 : tl2 ≤ br2
      · by_cases h3 : br1 ≤ v.numCols
        · by_cases h4 : br2 ≤ v.numRows
          · by_cases g1 : d1 ≤ v.numCols
            · by_cases g3 : br1 - tl1 ≤ v.numCols - d1
              · by_cases g2 : d2 ≤ v.numRows
                · have g4 : ¬ br2 - tl2 ≤ v.numRows - d2 := by
                    intro g4; exact hn ⟨h1, h2, h3, h4, by omega, by omega⟩
                  simp [h1, h2, h3, h4, g1, g2, g3, g4, usub_ok]
                · simp [h1, h2, h3, h4, g1, g2, usub_ok]
              · simp [h1, h2, h3, h4, g1, g3, usub_ok]
            · simp [h1, h2, h3, h4, g1, usub_ok]
          · simp [h1, h2, h3, h4]
        · simp [h1, h2, h3]
      · simp [h1, h2]
    · simp [h1]

/-- non-vacuity: `copy_from_slice` into a 2x2 window (stride 3, offset 1) of an 8-cell buffer writes exactly its four cells
    (concrete computation); the `TooDee` override on a concrete 3x2 array (`C14_copy_from_slice_owned`) -/
example : (⟨2, 2, ⟨⟨1, 5⟩, 2, 1⟩⟩ : Acc).copyFromSlice .debug [0, 1, 2, 3, 4, 5, 6, 7] [10, 11, 12, 13] =
      .ok [0, 10, 11, 3, 12, 13, 6, 7] ∧
    TD.copyFromSlice (⟨[1, 2, 3, 4, 5, 6], 2, 3⟩ : TD Nat) [6, 5, 4, 3, 2, 1] = .ok [6, 5, 4, 3, 2, 1] :=
  ⟨by rfl, ((C14_copy_from_slice_owned _ ⟨rfl, by decide, by decide⟩ [6, 5, 4, 3, 2, 1]).1 rfl).1⟩
/-- non-vacuity of `C14_copy_from_slice_default`: its hypotheses hold for that window; a slice of the wrong length panics -/
example : (⟨2, 2, ⟨⟨1, 5⟩, 2, 1⟩⟩ : Acc).copyFromSlice .release [0, 1, 2, 3, 4, 5, 6, 7] [10, 11, 12] = .error .panic :=
  (C14_copy_from_slice_default .release ⟨⟨1, 5⟩, 2, 2, 3⟩ [0, 1, 2, 3, 4, 5, 6, 7]
    ⟨by decide, by decide, by decide, by decide, by decide, by decide⟩ _
    ⟨rfl, rfl, ⟨by decide, by decide, by decide, by decide, by decide⟩, rfl⟩ [10, 11, 12]).2 (by decide) (by decide)
/-- non-vacuity: `copy_within` of the rectangle `(0,0)..(2,1)` to `(1,1)` in a concrete 3x2 array: the rectangles fit (and
    would not at `(2,1)`), the call evaluates, and the hypotheses of `C14_copy_within` (row accessor included) hold -/
example : rectsFit 3 2 (0, 0) (2, 1) (1, 1) ∧ ¬ rectsFit 3 2 (0, 0) (2, 1) (2, 1) ∧
    (TD.acc (⟨[1, 2, 3, 4, 5, 6], 2, 3⟩ : TD Nat)).copyWithin .debug (fun r => .ok ⟨r * 3, 3⟩) [1, 2, 3, 4, 5, 6]
      (0, 0) (2, 1) (1, 1) = .ok [1, 2, 3, 4, 1, 2] := ⟨by decide, by decide, by rfl⟩
example : (TD.acc (⟨[1, 2, 3, 4, 5, 6], 2, 3⟩ : TD Nat)).copyWithin .debug (fun r => .ok ⟨r * 3, 3⟩) [1, 2, 3, 4, 5, 6]
    (0, 0) (2, 1) (1, 1) = .ok ((TD.asView (⟨[1, 2, 3, 4, 5, 6], 2, 3⟩ : TD Nat)).updCells [1, 2, 3, 4, 5, 6]
      (copyWithinCells (TD.asView (⟨[1, 2, 3, 4, 5, 6], 2, 3⟩ : TD Nat)) [1, 2, 3, 4, 5, 6] (0, 0) (2, 1) (1, 1))) :=
  (C14_copy_within .debug (TD.asView (⟨[1, 2, 3, 4, 5, 6], 2, 3⟩ : TD Nat)) [1, 2, 3, 4, 5, 6]
    (TD.asView_inv _ ⟨rfl, by decide, by decide⟩).1 _ (C13_acc_owned _ ⟨rfl, by decide, by decide⟩)
    (fun r => .ok ⟨r * 3, 3⟩) (fun r _ => by simp [VW.rowWin, VW.pos, TD.asView, TD.win]) (0, 0) (2, 1) (1, 1)
    (by decide)).1 (by decide)

end Toodee
