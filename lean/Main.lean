import Toodee.Driver.Run
import Toodee.Driver.Oracle
open Toodee Toodee.Driver

structure DState where
  elem : Elem := .u32
  prev : RObs := { status := "ok", toks := [], st := { c := 0, r := 0, l := 0, data := [] }, drops := [], live := 0, dbl := 0 }

def handle (m : Mode) (ds : DState) (raw : String) : DState × String :=
  let raw := (raw.dropEndWhile (fun c => c == '\n' || c == '\r')).toString
  match raw.splitOn " ## " with
  | [line, obs] =>
    if line.startsWith "#" then (ds, s!"M {line} ## S ok")
    else if line.startsWith "case " then
      let ws := words line
      let elem := match ws.getD 2 "" with
        | "elem=cell" => Elem.cell
        | "elem=zst" => Elem.zst
        | "elem=unit" => Elem.unit
        | "elem=nan" => Elem.nan
        | "elem=wide" => Elem.wide
        | "elem=widecell" => Elem.widecell
        | _ => Elem.u32
      ({ elem := elem }, s!"M case {ws.getD 1 ""} ## S ok")
    else
      let cx : Ctx := { m := m, elem := ds.elem, prev := ds.prev.st }
      let robs := parseObs obs
      if line == "end" then
        let o : MOut := { data := [], c := 0, r := 0, drops := cx.dr ds.prev.st.data }
        let mtxt := fmtObs cx ds.prev.live ds.prev.dbl o
        let ds' := match robs with | some r => { ds with prev := r } | none => ds
        (ds', s!"M {mtxt} ## S {oracleEnd cx ds.prev robs}")
      else
        let line := normDrainEnd line
        let mo := if ds.prev.st.big then none else step cx line robs
        let mtxt := match mo with
          | some o => fmtObs cx ds.prev.live ds.prev.dbl o
          | none => "?"
        let verdict := oracle cx ds.prev line robs
        let ds' := match robs with | some r => { ds with prev := r } | none => ds
        (ds', s!"M {mtxt} ## S {verdict}")
  | _ => (ds, "M bad-line ## S ?")

partial def loop (m : Mode) (h : IO.FS.Stream) (out : IO.FS.Stream) (ds : DState) : IO Unit := do
  let line ← h.getLine
  if line.isEmpty then return ()
  let (ds', o) := handle m ds line
  out.putStrLn o
  loop m h out ds'

def main (args : List String) : IO Unit := do
  let m := if args.head? = some "release" then Mode.release else Mode.debug
  let out ← IO.getStdout
  loop m (← IO.getStdin) out {}
