#!/usr/bin/env python3
"""Regenerates MANIFEST.json from the table below (so that all checks stay uniform).  Run: python3 manifest_gen.py"""
import json, os

VERIF = os.path.dirname(os.path.abspath(__file__))

COMMON_NOTE = ("trusted: Lean 4.33 kernel; axioms propext / Classical.choice / Quot.sound only (audited per theorem on every run, no native_decide); "
               "the hand transcription Rust -> Impl-model, re-validated against /repo's working tree on every run by the differential "
               "correspondence check (tdharness on the real crate in debug and release vs the compiled Lean driver); harness, driver, check.py; ")

# property -> (claimed?, level text, extra trusted/assumed, technique)
CLAIMS = {
 "C20": ("Theorems: each constructor (new, init, from_vec/from_box, TooDeeView::new, TooDeeViewMut::new) accepts iff zero rule, non-overflowing product and fitting buffer, else panics (never ub); accepted results have the stated dimensions, the shape invariant and row-major cells; From<view>/From<view_mut> (row-by-row extend) gives exactly the view's dimensions and cells in row-major order with the invariant; derived equality/hash are field-wise. Correspondence: every constructor x boundary dimensions {0..4,2^32,2^63,2^64-1}^2 x buffer lengths, conversions on all shapes, both profiles.",
         "Vec / vec! / resize_with / derived Clone, PartialEq, Hash and the into_* conversions are modelled by specification",
         "Lean 4 proof (decision logic + invariant) + differential correspondence"),
 "C02": ("Theorems for owned arrays and (mutable) views under their invariants, both build modes, all coordinates < 2^64: in range, every accessor (Index<Coordinate>, Index<usize> then slice index, col(c)[r], _mut twins, unchecked getters) returns the one position pos(col,row) (= row*num_cols+col for an owned array), inside the buffer, and pos is injective; out of range every checked accessor panics, never ub — including wrap-around products in release. Correspondence: all shapes <= 4x4, nested views, boundary and wrap-provoking coordinates.",
         "slice indexing / get_unchecked modelled as window arithmetic with panic / ub outcomes",
         "Lean 4 proof (index arithmetic incl. usize wrap-around) + differential correspondence"),
 "C03": ("Theorems: for any parent (owned or view, hence any nesting depth) with its invariant and start <= end <= (C,R): all six view constructors succeed, the window has size end-start (or (0,0)), satisfies the view invariant again, and its cell (c,r) has the same root-buffer position as the parent's cell (start+c,r); any other start/end panics (never ub); the window the property oracle computes is proved to be exactly the constructors' result. Correspondence: all parents <= 3x3 x all start/end in {0..dim+1}^4 x 3 receiver kinds, depth 3, slice-built roots, writes through mutable views.",
         "unchecked / checked slicing modelled as window arithmetic",
         "Lean 4 proof (window arithmetic, invariant preservation) + differential correspondence"),
 "C06": ("Theorems over the transcription of the raw-move code (ptr::copy as memmove on the allocation, ptr::write, set_len), for every capacity `reserve` may return and both build modes: with an honest iterator, insert_row/insert_col/push_* are accepted iff index <= dim and (length = other dim or the array is empty); the result is the original with the new line at index i (flat formula and rows-of-cells form `grid.insertIdx` / `zipWith insAt`), dimension grown by one, empty line into empty array stays (0,0), invariant kept, nothing leaked, no ub; any other index/length panics before any mutation (array unchanged). Correspondence: all shapes <= 4x4 x index 0..dim+1 x length 0..dim+1 x {u32, cell, zst} x capacities, plus random build-up histories.",
         "Vec::reserve (any resulting capacity, or capacity-overflow panic), set_len, ptr::copy/write modelled by specification; zero-sized elements take the same code path in the model (counted loops)",
         "Lean 4 proof (loop invariants over memmove, refinement to rows-of-cells) + differential correspondence"),
 "C07": ("Theorems: remove_row's drain (Vec::drain wrapped, std component by specification) holds exactly row i, is an ideal double-ended sequence, and dropping it at any stage leaves data.take(i*C) ++ data.drop((i+1)*C) = grid.eraseIdx i with the invariant; remove_col's cursor stands for column i top to bottom (C09), next/next_back move out exactly the yielded cell, and DrainCol::drop at any stage of consumption compacts the buffer (R-1 left block moves + tail move, all inside the allocation) to grid.map (eraseIdx i), drops exactly the unyielded cells, restores the invariant; last line removed gives (0,0); out-of-range index panics; pop_* on empty returns None. Correspondence: all shapes <= 4x4 x all indices x (front,back) consumption splits and random words x {u32,cell,zst}.",
         "Vec::drain (incl. its drop) modelled by specification; ptr::read/copy, set_len, from_raw_parts_mut as window arithmetic",
         "Lean 4 proof (compaction loop invariant, cursor simulation) + differential correspondence"),
 "C08": ("Simulation theorems for the one transcription shared by Rows and RowsMut: under the cursor invariant WF(it,k,n) the cursor stands for its k remaining row windows; next, next_back, nth(j), nth_back(j) (every j, incl. j*(cols+skip) >= 2^64), len/size_hint/count, last, fold, rfold and any word of them return exactly what the ideal sequence returns, never panic or ub, and re-establish WF; rows()/rows_mut() of an owned array or any view start WF and stand for the num_rows windows <pos(0,r), num_cols>; the windows are pairwise disjoint and inside the buffer. Correspondence: all shapes <= 3x3, views with stride > width, nested views, slice-built views, exhaustive words to depth 3 + random words with huge arguments, positions of every yielded slice compared, write-through checked via rows_mut.",
         "split_at(_mut), get_unchecked(_mut), mem::take modelled as window arithmetic; Rows and RowsMut share one transcription (their texts differ only in mem::take and in how next_back computes the new length)",
         "Lean 4 proof (cursor invariant + simulation of the ideal sequence, induction over words) + differential correspondence"),
 "C09": ("Same simulation for Col/ColMut (items = cell positions) plus indexing: it[i] is the i-th remaining cell for i < len and panics otherwise, also when i*(1+skip) wraps; col(c)/col_mut(c) of an owned array or view are WF and stand for the column's cells top to bottom, c out of range panics; yielded positions are distinct and inside the buffer. Correspondence as C08 with every column index 0..C and index steps.",
         "split_first/last(_mut), get_unchecked(_mut), checked slice index modelled as window arithmetic; Col and ColMut share one transcription",
         "Lean 4 proof (cursor invariant + simulation, index arithmetic incl. wrap-around) + differential correspondence"),
 "C04": ("General theorems about the two forms every in-place operation is proved to have (C13-C17): `gather buf (v.mapCells g)` (cell permutation) and `v.updCells buf h` (overwrite): the length is kept, every root-buffer position that is not a cell of the view keeps its content, and cell (c,r) receives exactly old cell g(c,r) resp. h(c,r) - with the same cell function as for an owned array (t.asView); positions and coordinates of a view are in bijection; every position handed out by rows_mut/col_mut/cells_mut is a cell of the view; and the second sentence of the property literally: for every cell permutation and every overwrite, applying it through the view and copying the view out equals copying out first and applying the same cell function to the owned array (C04_same_effect_*). Correspondence: every mutating operation on views at interior/edge/nested positions of all parents <= 4x4 with the whole parent compared.",
         "the per-operation statements (swap family, fill, copies, sorts, translate, flips) live in C13-C17 and are re-checked by their own checks; this check covers the frame lemmas and the whole-parent correspondence",
         "Lean 4 proof (frame condition built into the spec form; bijection pos/coord) + differential correspondence"),
 "C10": ("Simulation theorems for FlattenExact over the row cursor (Cells/CellsMut and the IntoIterator forms): under Flat.WF the cursor stands for front ++ flatten(rows) ++ back; next, next_back, nth(j), nth_back(j) for every j, len/size_hint, last, fold, rfold and any word of them return what the ideal sequence returns; the internal loops end within two iterations; the debug_assert in nth never fires; no panic, no ub; cells() of an owned array is 0..C*R in order, of a view all its cell positions row-major, each exactly once. Correspondence: all shapes <= 3x3, views, nested, slice-built, exhaustive + random words with huge arguments, write-through via cells_mut/iter_mut.",
         "core::slice::Iter/IterMut modelled by specification (SliceIter); uses the C08 row-cursor theorems",
         "Lean 4 proof (simulation of the ideal sequence through a two-level cursor) + differential correspondence"),
 "C13": ("Theorems for the three implementors (TooDee overrides, TooDeeViewMut::swap_rows override, trait defaults over rows_mut().nth): swap / swap_rows / swap_cols with in-range names equal the stated exchange as a cell permutation of the receiver (hence every other root cell unchanged; equal names = identity); row_pair_mut returns the two row windows in order, disjoint; fill writes the value to every cell and nothing else; any out-of-range index (and r1 = r2 for row_pair_mut) panics; never ub; both modes; all indices < 2^64. Correspondence: all shapes <= 3x3, all index pairs in {0..dim+1, 2^64-1}^2, root / Ext (defaults only) / views / nested views.",
         "split_at_mut, swap_with_slice, ptr::swap(_nonoverlapping), slice::fill modelled by specification",
         "Lean 4 proof (refinement of each implementation to one cell-permutation spec) + differential correspondence"),
 "C14": ("Theorems: copy_from_slice/clone_from_slice and copy_from_toodee/clone_from_toodee (trait defaults and TooDee overrides): sizes equal => destination cell (c,r) becomes source cell (c,r) (row-major for slices; any source view incl. strided) and nothing else changes; sizes differ => panic; all shapes incl. (0,0). copy_within (after the fix: overflow-free bounds checks): rectangles fit => destination rectangle = prior source rectangle for every relative placement (three arms: bottom-up, top-down, per-row memmove), everything else unchanged; otherwise panic. Correspondence: all shapes <= 3x3, all receivers, all source rectangles x destination corners incl. 2^64-1.",
         "copy_from_slice/clone_from_slice/slice::copy_within/chunks_exact/zip modelled by specification; copy and clone variants share one transcription",
         "Lean 4 proof (three loop invariants, pointwise buffer characterisation) + differential correspondence"),
 "C16": ("Theorems: build_swap_trace on any permutation p returns transpositions (i<j<n) whose application maps xs to ys with ys[k] = xs[p[k]], every unchecked index in range (in-place reuse handled); the stable side sort (List.mergeSort model of sort_by) yields a permutation that orders the keys and keeps ties in original order; applying the trace to every row = permuting whole columns (new column j = old column p[j] on every row; frame untouched); sort_by_row = that with the stable permutation, sort_unstable_by_row = that for every permutation the side sort may return; the chosen row of the result is the old row permuted by p, hence ordered; out-of-range row panics. Correspondence: all shapes <= 4x4 x every row index x 6 variants x root/Ext/view, keys over a 3-letter alphabet, wide arrays (40-70 columns) so unstable sorts really reorder ties; for unstable variants the harness's permutation is reconstructed and checked against the sort contract.",
         "slice::sort_by (the unique stable sort) modelled by List.mergeSort; sort_unstable_by is a model input constrained by its contract (sorted permutation); the (usize,&T)->(usize,usize) transmute is outside the model",
         "Lean 4 proof (in-place permutation-to-transpositions invariant, mergeSort stability, fold of cell permutations) + differential correspondence"),
 "C17": ("Theorems: applying the swap trace with the implementor's swap_rows (any implementation satisfying the C13 spec) permutes whole rows (new row j = old row p[j]); sort_by_col collects the column through the C09 cursor and equals that with the stable permutation; the unstable variant for every permutation; key variants delegate to these (after the fix); out-of-range column panics. Correspondence as C16 for the five column variants.",
         "as C16",
         "Lean 4 proof + differential correspondence"),
 "C18": ("Theorems over the abstract document model of src/serde.rs: deserialize(serialize(t)) = ok t for every owned array with the invariant and every round-tripping element codec; serialising a view (dims + cells row-major) and deserialising gives the owned copy. Correspondence: all shapes <= 4x4 (+1xN, Nx1) x four transports (str, slice, reader, value) x {u32, cell}, views and slice-built views, on the real serde_json.",
         "serde / serde_json tokenisation, number handling and the derived Serialize are assumed components (exercised for real through all four transports)",
         "Lean 4 proof (round-trip law over an abstract document) + differential correspondence"),
 "C19": ("Theorem for every document: the visitor returns an error, or an array with the shape invariant whose dimensions and cells are stated by entries of the document (a repeated data key overwrites) - never a panic; overflowing, length-mismatching and one-zero-dimension documents are rejected. Correspondence: grammar-generated documents (missing/duplicate/unknown/escaped keys, boundary and ill-typed dimension values, wrong lengths and element types, non-objects) through all four transports, parsed by an independent JSON reader in the driver.",
         "serde_json parsing assumed; serde_json::Value de-duplicates keys (last wins), which the driver mirrors for the value transport",
         "Lean 4 proof (decision logic over all documents) + differential correspondence"),
 "C05": ("Accounting theorems (ownership by position; List.Perm over an arbitrary element type): insert_row/insert_col add exactly the supplied items; remove_row/remove_col keep exactly the other cells and hand out / drop exactly the removed line; every cell permutation of a view conserves the whole buffer; overwrites keep the length (one cell leaves per cell that enters); parts of a permutation of a duplicate-free list are pairwise disjoint (never twice, never while reachable); and across ANY history of operations (incl. rejected calls and panicking iterator scripts): final cells ++ everything that left the array is a permutation of initial cells ++ everything supplied (C05_history_conserves). PARTIAL: that Rust runs Drop exactly where the model says is established only on explored histories, by the harness's drop ledger (per-step dropped values, live count, double-drop counter) compared with the model's prediction on random and exhaustive histories over ledgered cells and zero-sized elements, and at the final drop of every case.",
         "destructor execution, mem::forget and Vec's own drop glue are runtime behaviour outside the model; observed through the ledger",
         "Lean 4 proof of conservation laws (multiset permutations) + ledger-instrumented differential correspondence"),
 "C11": ("Theorems for the crate's own critical sections: insert_row / insert_col with ANY iterator script (items and panics in any order, any claimed length), any capacity, both modes: never ub; in every outcome the array satisfies the shape invariant; array cells + leaked + items still held by the caller are a permutation of old cells + supplied items. DrainCol's drop loop with a panicking element destructor ends in exactly the state of a normal drop (DropGuard). Sorts call caller code only before touching the array. PARTIAL: panics inside Vec's own operations (resize_with, vec!, fill, clone, drain, clear) and unwinding itself are assumed components; they are exercised for real by fault injection (k-th Clone/Drop/Default/comparator/key call panics, for every k, on all shapes <= 3x3) and judged by the property oracle (shape invariant, no double drop then or at the final drop, every reachable cell known, array still usable for read / push / pop / drop).",
         "unwinding, catch_unwind and std's panic safety are runtime behaviour outside the model",
         "Lean 4 proof (invariant at every point where caller code can unwind; conservation as a permutation) + fault-enumerating differential correspondence"),
 "C12": ("Theorems: leaking the row drain at any stage leaves exactly the rows before the removed one (invariant holds; kept ++ yielded ++ leaked is a permutation of the old cells); leaking the column drain leaves the empty array (0,0) and what it leaked plus what it moved out is exactly the old buffer; iterators and views own nothing. PARTIAL: the state std's Vec::drain leaves behind when leaked is documented as unspecified; the model assumes today's behaviour (length = start of the drained range), which the correspondence run validates: every drain leaked after every (front,back) consumption split on all shapes <= 4x4 x {cell,u32,zst}, then read, mutated, dropped, ledger checked.",
         "mem::forget and Vec::drain's leak behaviour are assumed components",
         "Lean 4 proof (invariant + conservation after a leak) + differential correspondence with ledger"),
 "C15": ("Theorems: translate_with_wrap((mc,mr)) with mc <= C, mr <= R equals the cell permutation new[(c,r)] = old[((c+mc)%C,(r+mr)%R)] of the receiver (so nothing lost or duplicated, frame untouched) - the cycle-leader loop with rotate-while-swapping is verified for all shapes via its one-cycle invariant and the orbit structure of k -> (b + k*a) mod R (gcd(R,a) orbits of length R/gcd), the fuelled loops never run out, no usize overflow (after the fix) and no ub; a larger mid panics; flip_rows / flip_cols are the stated mirrors; all three cell maps are bijections. Correspondence: all shapes <= 5x5 x all mids 0..dim+1 and 2^64-1, views and nested views, taller arrays up to 12 rows (every gcd pattern).",
         "rotate_left, swap_with_slice, reverse modelled by specification",
         "Lean 4 proof (nested loop invariants + number theory of the orbits) + differential correspondence"),
 "C01": ("Theorems over histories: an operation type covering construction, insert_row/insert_col with any iterator script, remove/pop of rows and columns (final state independent of how far the drain was consumed, C07), clear, swap_dimensions, capacity calls, fill, the swap family, copy_from_slice, translate, flips, sort_by_row/col - with arbitrary valid or invalid arguments; `hstep` = the Impl-model's array after the call (also after a rejected call or a panic in caller code). Proved: one step preserves the shape invariant; hence every array reachable from default()/any valid array by any history satisfies it (induction over the history, both build modes); rows()/cells()/col(c) report num_rows / num_cols*num_rows / num_rows; and after every operation (construction, structural, swap family, fill, copy_from_slice, translate, flips, stable sorts - with any valid or invalid arguments) the array's rows-of-cells equal those of the plain rows-of-cells model `gstep` driven by the same operation (only lying or panicking iterator scripts are left open, as in the property). Composition of C06, C07, C11, C13-C17. Correspondence: random histories of 10-40 mostly-valid operations (incl. rejected calls, views, iterators) on u32 / ledgered cells / zero-sized elements, plus exhaustive depth-3 words over 14 structural operations from 5 tiny shapes; size, data().len(), all iterator lengths and every cell compared after every step.",
         "as for the composed properties; capacity is not part of the modelled state (reserve / shrink_to_fit are identity steps)",
         "Lean 4 proof (invariant by induction over operation histories; refinement to a rows-of-cells model) + differential correspondence on histories"),
}

ORDER = ["C01", "C02", "C03", "C04", "C05", "C06", "C07", "C08", "C09", "C10", "C11", "C12", "C13", "C14", "C15", "C16", "C17", "C18", "C19", "C20"]

NOT_YET = "model and correspondence stream exist or are being built; the Lean theorems for this property are not finished yet, so it is not claimed in this commit (machine-checked proof applies; see DESIGN.md §6)"


def main():
    checks = []
    na = []
    for pid in ORDER:
        if pid in CLAIMS:
            text, extra, tech = CLAIMS[pid]
            checks.append({
                "property_id": pid,
                "quick_cmd": f"python3 check.py {pid} --tier quick",
                "thorough_cmd": f"python3 check.py {pid} --tier thorough",
                "evidence_file": f"evidence/{pid}.json",
                "replay_cmd_template": f"python3 check.py {pid} --replay {{path}}",
                "engine": "lean-model",
                "level_claimed": {"category": "proof", "text": text, "design_ref": f"DESIGN.md §6 {pid}"},
                "level_note": COMMON_NOTE + extra,
                "technique": tech,
            })
        else:
            na.append({"property_id": pid, "reason": NOT_YET})
    m = {
        "version": 1,
        "setup_cmd": "python3 check.py --setup",
        "hooks": {
            "guard": "toodee_verif",
            "enable": "no hooks: every observation goes through the crate's public API (the harness in /verif/harness depends on /repo by path and is rebuilt from /repo's working tree on every run)",
            "baseline_off_cmd": "cd /repo && cargo test --workspace --no-fail-fast --offline",
            "source_commits": [],
            "add_only": True,
        },
        "engines": [
            {"name": "lean-model", "path": "lean", "serves_properties": sorted(CLAIMS), "kind_free_text": "Lean 4 Impl-model + Spec + property theorems (lake build; #print axioms audit; leanchecker in the thorough tier)"},
            {"name": "correspondence", "path": "harness", "serves_properties": sorted(CLAIMS), "kind_free_text": "Rust harness running the real crate in-process (debug + release) vs the compiled Lean driver `tdmodel` over a line protocol (PROTOCOL.md); generators in gen.py; orchestrated by check.py"},
        ],
        "checks": checks,
        "not_applicable": na,
        "notes": "All twenty properties are claimed at level proof (C05, C11, C12 with stated partial scope: runtime behaviour - destructors, unwinding, mem::forget - is observed by the ledgered harness, not proved). Genuine defects found and repaired are listed in known_findings.json (all 'fixed').",
    }
    with open(os.path.join(VERIF, "MANIFEST.json"), "w") as f:
        json.dump(m, f, indent=1)
    print("claimed:", [c["property_id"] for c in checks])


if __name__ == "__main__":
    main()
