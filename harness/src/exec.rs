//! Execution of one parsed op against the real crate: the `Ext` wrapper, receiver resolution
//! (PROTOCOL §5) and the per-family op implementations (§6).

use crate::elem::{arm, de_doc, disarm, ser_doc, tick_panic, Doc, Elem, FaultKind, Transport};
use crate::parse::{DrainEnd, ItKind, Op, Seg, SortKind, Step, Win};
use std::cell::RefCell;
use std::collections::hash_map::DefaultHasher;
use std::collections::VecDeque;
use std::hash::{Hash, Hasher};
use std::mem;
use std::ops::{Index, IndexMut};
use std::panic::{catch_unwind, resume_unwind, AssertUnwindSafe};
use toodee::*;

// ---------------------------------------------------------------- Ext: third-party implementor

/// Implements only the *required* items of the crate's traits, by delegation to the root array,
/// so that every provided (default) method of `TooDeeOps`, `TooDeeOpsMut`, `CopyOps`, `SortOps`
/// and `TranslateOps` is exercised.
pub struct Ext<'a, T>(pub &'a mut TooDee<T>);

impl<T> Index<usize> for Ext<'_, T> {
    type Output = [T];
    fn index(&self, row: usize) -> &[T] {
        &self.0[row]
    }
}
impl<T> Index<Coordinate> for Ext<'_, T> {
    type Output = T;
    fn index(&self, c: Coordinate) -> &T {
        &self.0[c]
    }
}
impl<T> IndexMut<usize> for Ext<'_, T> {
    fn index_mut(&mut self, row: usize) -> &mut [T] {
        &mut self.0[row]
    }
}
impl<T> IndexMut<Coordinate> for Ext<'_, T> {
    fn index_mut(&mut self, c: Coordinate) -> &mut T {
        &mut self.0[c]
    }
}
impl<T> TooDeeOps<T> for Ext<'_, T> {
    fn num_cols(&self) -> usize {
        self.0.num_cols()
    }
    fn num_rows(&self) -> usize {
        self.0.num_rows()
    }
    fn view(&self, start: Coordinate, end: Coordinate) -> TooDeeView<'_, T> {
        self.0.view(start, end)
    }
    fn rows(&self) -> Rows<'_, T> {
        self.0.rows()
    }
    fn col(&self, col: usize) -> Col<'_, T> {
        self.0.col(col)
    }
    unsafe fn get_unchecked_row(&self, row: usize) -> &[T] {
        self.0.get_unchecked_row(row)
    }
    unsafe fn get_unchecked(&self, coord: Coordinate) -> &T {
        TooDeeOps::get_unchecked(&*self.0, coord)
    }
}
impl<T> TooDeeOpsMut<T> for Ext<'_, T> {
    fn view_mut(&mut self, start: Coordinate, end: Coordinate) -> TooDeeViewMut<'_, T> {
        self.0.view_mut(start, end)
    }
    fn rows_mut(&mut self) -> RowsMut<'_, T> {
        self.0.rows_mut()
    }
    fn col_mut(&mut self, col: usize) -> ColMut<'_, T> {
        self.0.col_mut(col)
    }
    unsafe fn get_unchecked_row_mut(&mut self, row: usize) -> &mut [T] {
        self.0.get_unchecked_row_mut(row)
    }
    unsafe fn get_unchecked_mut(&mut self, coord: Coordinate) -> &mut T {
        TooDeeOpsMut::get_unchecked_mut(&mut *self.0, coord)
    }
}
impl<T> CopyOps<T> for Ext<'_, T> {}

// ---------------------------------------------------------------- positions, items, iterator extras

#[derive(Clone, Copy)]
pub struct Pos {
    pub base: usize,
}

impl Pos {
    pub fn of<T>(&self, p: *const T) -> usize {
        let sz = mem::size_of::<T>();
        if sz == 0 { 0 } else { (p as usize).wrapping_sub(self.base) / sz }
    }
    pub fn slice<T>(&self, s: &[T]) -> String {
        if s.is_empty() { "0:0".into() } else { format!("{}:{}", self.of(s.as_ptr()), s.len()) }
    }
}

/// Something an iterator yields: a cell or a row, shared or mutable.
pub trait Yield<T: Elem> {
    fn tok(&self, pos: &Pos) -> String;
    fn bump(&mut self, by: u32);
}
impl<T: Elem> Yield<T> for &[T] {
    fn tok(&self, pos: &Pos) -> String {
        pos.slice(self)
    }
    fn bump(&mut self, _by: u32) {}
}
impl<T: Elem> Yield<T> for &mut [T] {
    fn tok(&self, pos: &Pos) -> String {
        pos.slice(self)
    }
    fn bump(&mut self, by: u32) {
        self.iter_mut().for_each(|c| c.bump(by));
    }
}
impl<T: Elem> Yield<T> for &T {
    fn tok(&self, pos: &Pos) -> String {
        pos.of(*self as *const T).to_string()
    }
    fn bump(&mut self, _by: u32) {}
}
impl<T: Elem> Yield<T> for &mut T {
    fn tok(&self, pos: &Pos) -> String {
        pos.of(&**self as *const T).to_string()
    }
    fn bump(&mut self, by: u32) {
        Elem::bump(&mut **self, by);
    }
}

/// The non-`Iterator` extras of the crate's iterators (`num_cols`, indexing).
pub trait IterX<T> {
    fn ncols(&self) -> usize {
        unreachable!()
    }
    fn at(&self, _k: usize) -> &T {
        unreachable!()
    }
}
macro_rules! iterx_rows {
    ($($t:ty),*) => {$(
        impl<'a, T> IterX<T> for $t {
            fn ncols(&self) -> usize { TooDeeIterator::num_cols(self) }
        }
    )*};
}
iterx_rows!(Rows<'a, T>, RowsMut<'a, T>, Cells<'a, T>, CellsMut<'a, T>);
impl<T> IterX<T> for Col<'_, T> {
    fn at(&self, k: usize) -> &T {
        &self[k]
    }
}
impl<T> IterX<T> for ColMut<'_, T> {
    fn at(&self, k: usize) -> &T {
        &self[k]
    }
}

/// The scripted iterator for `insert_row` / `insert_col` (PROTOCOL §6.5).  The items live in a
/// queue owned by the caller, so leftovers can be dropped by the harness after the crate call.
pub struct Script<'q, T> {
    claimed: usize,
    q: &'q mut VecDeque<Option<T>>,
}
fn script_item<T>(e: Option<Option<T>>) -> Option<T> {
    match e {
        None => None,
        Some(Some(v)) => Some(v),
        Some(None) => panic!("script: `!` entry reached"),
    }
}
impl<T> Iterator for Script<'_, T> {
    type Item = T;
    fn next(&mut self) -> Option<T> {
        script_item(self.q.pop_front())
    }
    fn size_hint(&self) -> (usize, Option<usize>) {
        (self.claimed, Some(self.claimed))
    }
}
impl<T> DoubleEndedIterator for Script<'_, T> {
    fn next_back(&mut self) -> Option<T> {
        script_item(self.q.pop_back())
    }
}
impl<T> ExactSizeIterator for Script<'_, T> {
    fn len(&self) -> usize {
        self.claimed
    }
}

// ---------------------------------------------------------------- helpers

pub fn list_str<I: IntoIterator<Item = S>, S: ToString>(it: I) -> String {
    let v: Vec<String> = it.into_iter().map(|s| s.to_string()).collect();
    if v.is_empty() { "-".into() } else { v.join(",") }
}
pub fn vals<T: Elem>(s: &[T]) -> String {
    list_str(s.iter().map(|e| e.val()))
}
fn mkvec<T: Elem>(l: &[u32]) -> Vec<T> {
    l.iter().map(|v| T::mk(*v)).collect()
}
fn digest<H: Hash>(h: &H) -> u64 {
    let mut s = DefaultHasher::new();
    h.hash(&mut s);
    s.finish()
}
fn b01(b: bool) -> &'static str {
    if b { "1" } else { "0" }
}
fn lo(w: &Win) -> Coordinate {
    (w.0, w.1)
}
fn hi(w: &Win) -> Coordinate {
    (w.2, w.3)
}

#[derive(Clone, Copy, PartialEq, Eq, Debug)]
pub enum St {
    Ok,
    Unsupported,
}

// ---------------------------------------------------------------- the executor

pub struct Exec<'o, T: Elem> {
    pub op: &'o Op,
    pub pos: Pos,
    pub out: &'o RefCell<Vec<String>>,
    pub fault: Option<(FaultKind, u64)>,
    pub script: &'o RefCell<VecDeque<Option<T>>>,
}

impl<'o, T: Elem> Exec<'o, T> {
    fn tok<S: ToString>(&self, s: S) {
        self.out.borrow_mut().push(s.to_string());
    }
    fn arm(&self) {
        arm(self.fault);
    }
    fn disarm(&self) {
        disarm();
    }
    fn emit_td(&self, t: &TooDee<T>) {
        self.tok(t.num_cols());
        self.tok(t.num_rows());
        self.tok(vals(t.data()));
    }
    fn cell(&self, p: &T) {
        self.tok(self.pos.of(p as *const T));
        self.tok(p.val());
    }
    fn row(&self, s: &[T]) {
        self.tok(self.pos.slice(s));
        self.tok(vals(s));
    }
    fn twice(&self) -> bool {
        matches!(self.op, Op::ViewEq)
    }

    // ------------------------------------------------------------ root-only ops

    pub fn root(&self, td: &mut TooDee<T>) -> St {
        match self.op {
            Op::New(c, r) => {
                self.arm();
                let n = TooDee::<T>::new(*c, *r);
                self.disarm();
                *td = n;
            }
            Op::Init(c, r, v) => {
                let e = T::mk(*v);
                self.arm();
                let n = TooDee::init(*c, *r, e);
                self.disarm();
                *td = n;
            }
            Op::FromVec(c, r, l) => {
                let v = mkvec::<T>(l);
                self.arm();
                let n = TooDee::from_vec(*c, *r, v);
                self.disarm();
                *td = n;
            }
            Op::FromBox(c, r, l) => {
                let b = mkvec::<T>(l).into_boxed_slice();
                self.arm();
                let n = TooDee::from_box(*c, *r, b);
                self.disarm();
                *td = n;
            }
            Op::Default => {
                let n = TooDee::<T>::default();
                *td = n;
            }
            Op::WithCapacity(n) => {
                let n = TooDee::<T>::with_capacity(*n);
                *td = n;
            }
            Op::IntoVec => {
                self.arm();
                let v: Vec<T> = Vec::from(mem::take(td));
                self.disarm();
                self.tok(vals(&v));
            }
            Op::IntoBox => {
                self.arm();
                let b: Box<[T]> = Box::from(mem::take(td));
                self.disarm();
                self.tok(vals(&b));
            }
            Op::IntoIter(k) => {
                self.arm();
                let mut it = mem::take(td).into_iter();
                let mut taken: Vec<T> = Vec::new();
                for _ in 0..*k {
                    match it.next() {
                        Some(x) => taken.push(x),
                        None => break,
                    }
                }
                self.disarm();
                self.tok(vals(&taken));
            }
            Op::Clone => {
                self.arm();
                let mut c = td.clone();
                self.disarm();
                self.emit_td(&c);
                self.tok(format!("eq={}", b01(c == *td)));
                self.tok(format!("hasheq={}", b01(digest(&c) == digest(td))));
                let before: Vec<u32> = td.data().iter().map(|e| e.val()).collect();
                c.data_mut().iter_mut().for_each(|e| e.bump(1));
                let after: Vec<u32> = td.data().iter().map(|e| e.val()).collect();
                self.tok(format!("indep={}", b01(before == after)));
            }
            Op::EqSelf => {
                // `td == td` through two references to the same array
                let a: &TooDee<T> = td;
                let b: &TooDee<T> = td;
                self.arm();
                let e = a == b;
                self.disarm();
                self.tok(b01(e));
            }
            Op::CloneFrom(c, r, l) => {
                // `td.clone_from(&src)`: afterwards `td` must equal `src`; the source is dropped at the end of the step
                let o = TooDee::from_vec(*c, *r, mkvec::<T>(l));
                self.arm();
                td.clone_from(&o);
                self.disarm();
                self.tok(format!("eq={}", b01(*td == o)));
            }
            Op::Eq(c, r, l) => {
                let o = TooDee::from_vec(*c, *r, mkvec::<T>(l));
                self.arm();
                let e = *td == o;
                self.disarm();
                self.tok(b01(e));
                self.tok(format!("hasheq={}", b01(digest(td) == digest(&o))));
            }
            Op::InsertRow(i, claimed, _) => {
                let mut q = self.script.borrow_mut();
                let s = Script { claimed: *claimed, q: &mut q };
                self.arm();
                match i {
                    Some(i) => td.insert_row(*i, s),
                    None => td.push_row(s),
                }
                self.disarm();
            }
            Op::InsertCol(i, claimed, _) => {
                let mut q = self.script.borrow_mut();
                let s = Script { claimed: *claimed, q: &mut q };
                self.arm();
                match i {
                    Some(i) => td.insert_col(*i, s),
                    None => td.push_col(s),
                }
                self.disarm();
            }
            Op::RemoveRow(i, steps, leak) => {
                self.arm();
                let d = match i {
                    Some(i) => Some(td.remove_row(*i)),
                    None => td.pop_row(),
                };
                self.run_drain(d, steps, *leak);
            }
            Op::RemoveCol(i, steps, leak) => {
                self.arm();
                let d = match i {
                    Some(i) => Some(td.remove_col(*i)),
                    None => td.pop_col(),
                };
                self.run_drain(d, steps, *leak);
            }
            Op::Clear => {
                self.arm();
                td.clear();
                self.disarm();
            }
            Op::SwapDimensions => td.swap_dimensions(),
            Op::Reserve(n) => td.reserve(*n),
            Op::ReserveExact(n) => td.reserve_exact(*n),
            Op::ShrinkToFit => td.shrink_to_fit(),
            Op::Capacity => self.tok(b01(td.capacity() >= td.data().len())),
            Op::Ser => {
                self.arm();
                let r = ser_doc(&*td, Transport::Str);
                self.disarm();
                self.ser_result(r);
            }
            Op::Roundtrip(t) => {
                self.arm();
                let r = ser_doc(&*td, *t).and_then(|d| de_doc::<T>(&d, *t));
                self.disarm();
                match r {
                    Ok(n) => {
                        self.emit_td(&n);
                        self.tok(format!("eq={}", b01(n == *td)));
                    }
                    Err(()) => self.tok("err"),
                }
            }
            Op::De(t, json) => {
                let doc = match t {
                    Transport::Str => Doc::S(json.clone()),
                    Transport::Slice | Transport::Reader => Doc::B(json.clone().into_bytes()),
                    Transport::Value => match serde_json::from_str::<serde_json::Value>(json) {
                        Ok(v) => Doc::V(v),
                        Err(_) => {
                            self.tok("err");
                            return St::Ok;
                        }
                    },
                };
                self.arm();
                let r = de_doc::<T>(&doc, *t);
                self.disarm();
                match r {
                    Ok(n) => self.emit_td(&n),
                    Err(()) => self.tok("err"),
                }
            }
            Op::Iter(ItKind::IterRef, steps) => self.run_iter((&*td).into_iter(), steps),
            Op::Iter(ItKind::IterMut, steps) => self.run_iter((&mut *td).into_iter(), steps),
            _ => return self.mutable(td),
        }
        St::Ok
    }

    fn ser_result(&self, r: Result<Doc, ()>) {
        match r {
            Ok(Doc::S(s)) => self.tok(s),
            _ => self.tok("err"),
        }
    }

    fn run_drain<D>(&self, d: Option<D>, steps: &[Step], end: DrainEnd)
    where
        D: DoubleEndedIterator<Item = T> + ExactSizeIterator,
    {
        let Some(mut d) = d else {
            self.disarm();
            self.tok("none");
            return;
        };
        let item = |x: Option<T>| match x {
            Some(x) => {
                self.tok(x.val());
                drop(x);
            }
            None => self.tok("none"),
        };
        for s in steps {
            match s {
                Step::Next => item(d.next()),
                Step::Back => item(d.next_back()),
                Step::Nth(k) => item(d.nth(*k)),
                Step::NthBack(k) => item(d.nth_back(*k)),
                Step::Len => self.tok(d.len()),
                Step::Hint => self.hint(d.size_hint()),
                _ => {}
            }
        }
        match end {
            DrainEnd::Leak => mem::forget(d),
            DrainEnd::Drop => drop(d),
            // consumed by value through `Iterator::fold` (what `for_each`, `count`, `last`, `sum` call) / through
            // `DoubleEndedIterator::rfold` (`rev().for_each` …); the items are dropped afterwards, front to back
            DrainEnd::Fold => {
                let got = d.fold(Vec::new(), |mut a, x| {
                    a.push(x);
                    a
                });
                self.tok(got.len());
                drop(got);
            }
            DrainEnd::RFold => {
                let mut got = d.rfold(Vec::new(), |mut a, x| {
                    a.push(x);
                    a
                });
                got.reverse();
                self.tok(got.len());
                drop(got);
            }
        }
        self.disarm();
    }

    fn hint(&self, (lo, hi): (usize, Option<usize>)) {
        self.tok(format!("{}:{}", lo, hi.map_or("none".to_string(), |h| h.to_string())));
    }

    // ------------------------------------------------------------ ops on any mutable receiver

    pub fn mutable<X: CopyOps<T>>(&self, x: &mut X) -> St {
        match self.op {
            Op::Set(c, r, v) => {
                let nv = T::mk(*v);
                self.arm();
                let p = &mut x[(*c, *r)];
                self.tok(self.pos.of(p as *const T));
                *p = nv;
                self.disarm();
            }
            Op::RowSet(r, c, v) => {
                let nv = T::mk(*v);
                self.arm();
                let p = &mut x[*r][*c];
                self.tok(self.pos.of(p as *const T));
                *p = nv;
                self.disarm();
            }
            Op::ColSet(c, i, v) => {
                let nv = T::mk(*v);
                self.arm();
                let mut col = x.col_mut(*c);
                let p = &mut col[*i];
                self.tok(self.pos.of(p as *const T));
                *p = nv;
                self.disarm();
            }
            Op::ColMGet(c, i) => {
                let col = x.col_mut(*c);
                self.cell(&col[*i]);
            }
            Op::SetU(c, r, v) => {
                let nv = T::mk(*v);
                self.arm();
                let p = unsafe { x.get_unchecked_mut((*c, *r)) };
                self.tok(self.pos.of(p as *const T));
                *p = nv;
                self.disarm();
            }
            Op::RowSetU(r, c, v) => {
                let nv = T::mk(*v);
                self.arm();
                let row = unsafe { x.get_unchecked_row_mut(*r) };
                let p = &mut row[*c];
                self.tok(self.pos.of(p as *const T));
                *p = nv;
                self.disarm();
            }
            Op::Fill(v) => {
                let e = T::mk(*v);
                self.arm();
                x.fill(e);
                self.disarm();
            }
            Op::Swap(c1, r1, c2, r2) => x.swap((*c1, *r1), (*c2, *r2)),
            Op::SwapRows(a, b) => x.swap_rows(*a, *b),
            Op::SwapCols(a, b) => x.swap_cols(*a, *b),
            Op::RowPair(a, b) => {
                let (s1, s2) = x.row_pair_mut(*a, *b);
                self.tok(self.pos.slice(s1));
                self.tok(self.pos.slice(s2));
                s1.iter_mut().for_each(|c| c.bump(1000));
                s2.iter_mut().for_each(|c| c.bump(2000));
            }
            Op::CopyFromSlice(l) => {
                let v = mkvec::<T>(l);
                self.arm();
                T::copy_from_slice(x, &v);
                self.disarm();
            }
            Op::CloneFromSlice(l) => {
                let v = mkvec::<T>(l);
                self.arm();
                x.clone_from_slice(&v);
                self.disarm();
            }
            Op::FromTooDee(clone, c, r, l, win) => {
                let src = TooDee::from_vec(*c, *r, mkvec::<T>(l));
                match win {
                    None => self.from_toodee(x, &src, *clone),
                    Some(w) => {
                        let v = src.view(lo(w), hi(w));
                        self.from_toodee(x, &v, *clone)
                    }
                }
            }
            Op::CopyWithin(w, dc, dr) => T::copy_within(x, (lo(w), hi(w)), (*dc, *dr)),
            Op::Translate(mc, mr) => x.translate_with_wrap((*mc, *mr)),
            Op::FlipRows => x.flip_rows(),
            Op::FlipCols => x.flip_cols(),
            Op::Sort(k, i) => self.sort(x, *k, *i),
            Op::Iter(ItKind::RowsMut, steps) => self.run_iter(x.rows_mut(), steps),
            Op::Iter(ItKind::ColMut(c), steps) => self.run_iter(x.col_mut(*c), steps),
            Op::Iter(ItKind::CellsMut, steps) => self.run_iter(x.cells_mut(), steps),
            _ => return self.any(&*x),
        }
        St::Ok
    }

    fn from_toodee<X: CopyOps<T>, S: TooDeeOps<T>>(&self, x: &mut X, src: &S, clone: bool) {
        self.arm();
        if clone {
            x.clone_from_toodee(src);
        } else {
            T::copy_from_toodee(x, src);
        }
        self.disarm();
    }

    fn sort<X: CopyOps<T>>(&self, x: &mut X, k: SortKind, i: usize) {
        let cmp = |a: &T, b: &T| {
            tick_panic(FaultKind::Cmp);
            (a.val() % 8).cmp(&(b.val() % 8))
        };
        let key = |a: &T| {
            tick_panic(FaultKind::Key);
            a.val() % 8
        };
        self.arm();
        match k {
            SortKind::ByRow => x.sort_by_row(i, cmp),
            SortKind::UnstableByRow => x.sort_unstable_by_row(i, cmp),
            SortKind::ByRowKey => x.sort_by_row_key(i, key),
            SortKind::UnstableByRowKey => x.sort_unstable_by_row_key(i, key),
            SortKind::RowOrd => x.sort_row_ord::<()>(i),
            SortKind::UnstableRowOrd => x.sort_unstable_row_ord::<()>(i),
            SortKind::ByCol => x.sort_by_col(i, cmp),
            SortKind::UnstableByCol => x.sort_unstable_by_col(i, cmp),
            SortKind::ByColKey => x.sort_by_col_key(i, key),
            SortKind::UnstableByColKey => x.sort_unstable_by_col_key(i, key),
            SortKind::ColOrd => x.sort_col_ord::<()>(i),
        }
        self.disarm();
    }

    // ------------------------------------------------------------ ops on any receiver

    pub fn any<X: TooDeeOps<T>>(&self, x: &X) -> St {
        match self.op {
            Op::Get(c, r) => self.cell(&x[(*c, *r)]),
            Op::RowGet(r, c) => self.cell(&x[*r][*c]),
            Op::Row(r) => self.row(&x[*r]),
            Op::ColGet(c, i) => {
                let col = x.col(*c);
                self.cell(&col[*i]);
            }
            Op::GetU(c, r) => self.cell(unsafe { x.get_unchecked((*c, *r)) }),
            Op::RowU(r) => self.row(unsafe { x.get_unchecked_row(*r) }),
            Op::Size => {
                let (c, r) = x.size();
                self.tok(c);
                self.tok(r);
            }
            Op::IsEmpty => self.tok(b01(x.is_empty())),
            Op::Dump | Op::DumpPos => {
                let (nc, nr) = (x.num_cols(), x.num_rows());
                self.tok(nc);
                self.tok(nr);
                let mut l: Vec<usize> = Vec::new();
                for r in 0..nr {
                    for c in 0..nc {
                        let p = &x[(c, r)];
                        l.push(if matches!(self.op, Op::Dump) { p.val() as usize } else { self.pos.of(p as *const T) });
                    }
                }
                self.tok(list_str(l));
            }
            Op::Lens => {
                self.tok(x.rows().len());
                self.tok(x.cells().len());
                self.tok(list_str((0..x.num_cols()).map(|c| x.col(c).len())));
            }
            Op::Iter(ItKind::Rows, steps) => self.run_iter(x.rows(), steps),
            Op::Iter(ItKind::Col(c), steps) => self.run_iter(x.col(*c), steps),
            Op::Iter(ItKind::Cells, steps) => self.run_iter(x.cells(), steps),
            _ => return St::Unsupported,
        }
        St::Ok
    }

    // ------------------------------------------------------------ concrete view receivers

    fn roundtrip_result(&self, r: Result<TooDee<T>, ()>, owned: &TooDee<T>) {
        match r {
            Ok(n) => {
                self.emit_td(&n);
                self.tok(format!("eq={}", b01(n == *owned)));
            }
            Err(()) => self.tok("err"),
        }
    }

    pub fn vm(&self, v: TooDeeViewMut<'_, T>) -> St {
        match self.op {
            Op::ToOwned => {
                self.arm();
                let t = TooDee::from(v);
                self.disarm();
                self.emit_td(&t);
            }
            Op::Ser => {
                self.arm();
                let r = T::ser_view_mut(&v, Transport::Str);
                self.disarm();
                self.ser_result(r);
            }
            Op::Roundtrip(t) => {
                self.arm();
                let r = T::ser_view_mut(&v, *t).and_then(|d| de_doc::<T>(&d, *t));
                self.disarm();
                let owned = TooDee::from(v);
                self.roundtrip_result(r, &owned);
            }
            Op::Iter(ItKind::IterRef, steps) => self.run_iter((&v).into_iter(), steps),
            Op::Iter(ItKind::IterMut, steps) => {
                // `IntoIterator for &'a mut TooDeeViewMut<'a, T>`: re-bind so the view's lifetime can shrink.
                let mut v = v;
                self.run_iter((&mut v).into_iter(), steps)
            }
            _ => {
                let mut v = v;
                return self.mutable(&mut v);
            }
        }
        St::Ok
    }

    pub fn vw(&self, v: TooDeeView<'_, T>) -> St {
        match self.op {
            Op::ToOwned => {
                self.arm();
                let t = TooDee::from(v);
                self.disarm();
                self.emit_td(&t);
            }
            Op::Ser => {
                self.arm();
                let r = T::ser_view(&v, Transport::Str);
                self.disarm();
                self.ser_result(r);
            }
            Op::Roundtrip(t) => {
                self.arm();
                let r = T::ser_view(&v, *t).and_then(|d| de_doc::<T>(&d, *t));
                self.disarm();
                let owned = TooDee::from(v);
                self.roundtrip_result(r, &owned);
            }
            Op::Iter(ItKind::IterRef, steps) => self.run_iter((&v).into_iter(), steps),
            _ => return self.any(&v),
        }
        St::Ok
    }

    /// `vieweq`: the same view built twice.
    pub fn vw2(&self, a: TooDeeView<'_, T>, b: TooDeeView<'_, T>) -> St {
        self.tok(b01(a == b));
        self.tok(format!("hasheq={}", b01(digest(&a) == digest(&b))));
        St::Ok
    }

    // ------------------------------------------------------------ iterator words

    fn run_iter<I>(&self, it: I, steps: &[Step])
    where
        I: DoubleEndedIterator + ExactSizeIterator + IterX<T>,
        I::Item: Yield<T>,
    {
        let mut it = Some(it);
        let mut kept: Vec<I::Item> = Vec::new();
        self.arm();
        let r = catch_unwind(AssertUnwindSafe(|| {
            let item = |x: Option<I::Item>, kept: &mut Vec<I::Item>| match x {
                Some(x) => {
                    self.tok(x.tok(&self.pos));
                    kept.push(x);
                }
                None => self.tok("none"),
            };
            for s in steps {
                match *s {
                    Step::Next => item(it.as_mut().unwrap().next(), &mut kept),
                    Step::Back => item(it.as_mut().unwrap().next_back(), &mut kept),
                    Step::Nth(k) => item(it.as_mut().unwrap().nth(k), &mut kept),
                    Step::NthBack(k) => item(it.as_mut().unwrap().nth_back(k), &mut kept),
                    Step::Len => self.tok(it.as_ref().unwrap().len()),
                    Step::Hint => self.hint(it.as_ref().unwrap().size_hint()),
                    Step::Width => self.tok(it.as_ref().unwrap().ncols()),
                    Step::Idx(k) => self.tok(self.pos.of(it.as_ref().unwrap().at(k) as *const T)),
                    Step::Count => self.tok(it.take().unwrap().count()),
                    Step::Last => item(it.take().unwrap().last(), &mut kept),
                    Step::Fold | Step::RFold => {
                        let mut toks: Vec<String> = Vec::new();
                        let f = |(), x: I::Item| {
                            toks.push(x.tok(&self.pos));
                            kept.push(x);
                        };
                        if *s == Step::Fold {
                            it.take().unwrap().fold((), f);
                        } else {
                            it.take().unwrap().rfold((), f);
                        }
                        self.tok(format!("[{}]", toks.join(";")));
                    }
                }
            }
        }));
        self.disarm();
        drop(it);
        for k in kept.iter_mut() {
            k.bump(1000);
        }
        if let Err(p) = r {
            resume_unwind(p);
        }
    }
}

// ---------------------------------------------------------------- receiver resolution

pub fn resolve<T: Elem>(td: &mut TooDee<T>, segs: &[Seg], ex: &Exec<'_, T>) -> St {
    match segs.first() {
        None => ex.root(td),
        Some(Seg::X) => {
            let mut e = Ext(td);
            if segs.len() == 1 { ex.mutable(&mut e) } else { from_mut(&mut e, &segs[1..], ex) }
        }
        Some(Seg::SMut(c, r, n)) => {
            let v = TooDeeViewMut::new(*c, *r, &mut td.data_mut()[..*n]);
            vm_chain(v, &segs[1..], ex)
        }
        Some(Seg::SRef(c, r, n)) => {
            let d = &td.data()[..*n];
            if segs.len() == 1 && ex.twice() {
                let (a, b) = (TooDeeView::new(*c, *r, d), TooDeeView::new(*c, *r, d));
                ex.vw2(a, b)
            } else {
                vw_chain(TooDeeView::new(*c, *r, d), &segs[1..], ex)
            }
        }
        Some(_) => from_mut(td, segs, ex),
    }
}

fn from_mut<T: Elem, X: TooDeeOpsMut<T>>(p: &mut X, segs: &[Seg], ex: &Exec<'_, T>) -> St {
    match &segs[0] {
        Seg::V(w) => vm_chain(p.view_mut(lo(w), hi(w)), &segs[1..], ex),
        Seg::W(_) => from_ref(&*p, segs, ex),
        _ => St::Unsupported,
    }
}

fn vm_chain<T: Elem>(mut v: TooDeeViewMut<'_, T>, rest: &[Seg], ex: &Exec<'_, T>) -> St {
    if rest.is_empty() { ex.vm(v) } else { from_mut(&mut v, rest, ex) }
}

fn from_ref<T: Elem, X: TooDeeOps<T>>(p: &X, segs: &[Seg], ex: &Exec<'_, T>) -> St {
    let Seg::W(w) = &segs[0] else { return St::Unsupported };
    if segs.len() == 1 {
        if ex.twice() {
            let (a, b) = (p.view(lo(w), hi(w)), p.view(lo(w), hi(w)));
            ex.vw2(a, b)
        } else {
            ex.vw(p.view(lo(w), hi(w)))
        }
    } else {
        let v = p.view(lo(w), hi(w));
        from_ref(&v, &segs[1..], ex)
    }
}

fn vw_chain<T: Elem>(v: TooDeeView<'_, T>, rest: &[Seg], ex: &Exec<'_, T>) -> St {
    if rest.is_empty() { ex.vw(v) } else { from_ref(&v, rest, ex) }
}
