//! Element kinds (`u32`, `E` = ledgered cell, `Z` = zero-sized), the thread-local ledger and
//! the fault-injection countdowns (PROTOCOL §2, §6.7).

use serde::de::DeserializeOwned;
use serde::{Deserialize, Deserializer, Serialize, Serializer};
use std::cell::{Cell, RefCell};
use std::cmp::Ordering;
use std::collections::HashSet;
use std::hash::{Hash, Hasher};
use toodee::{Coordinate, CopyOps, TooDee, TooDeeOps, TooDeeView, TooDeeViewMut};

// ---------------------------------------------------------------- faults

#[derive(Clone, Copy, PartialEq, Eq, Debug)]
pub enum FaultKind {
    Clone = 0,
    Drop = 1,
    Default = 2,
    Cmp = 3,
    Key = 4,
}

thread_local! {
    static FAULTS: Cell<[Option<u64>; 5]> = const { Cell::new([None; 5]) };
    static LEDGER: RefCell<Ledger> = RefCell::new(Ledger::default());
}

pub fn arm(f: Option<(FaultKind, u64)>) {
    if let Some((k, n)) = f {
        let mut a = [None; 5];
        a[k as usize] = Some(n);
        FAULTS.with(|c| c.set(a));
    }
}

pub fn disarm() {
    let _ = FAULTS.try_with(|c| c.set([None; 5]));
}

/// Counts one call of `kind`; returns true if the one-shot countdown hit on this call.
pub fn tick(kind: FaultKind) -> bool {
    FAULTS
        .try_with(|c| {
            let mut a = c.get();
            match a[kind as usize] {
                None => false,
                Some(0) => {
                    a[kind as usize] = None;
                    c.set(a);
                    true
                }
                Some(n) => {
                    a[kind as usize] = Some(n - 1);
                    c.set(a);
                    false
                }
            }
        })
        .unwrap_or(false)
}

/// Counts one call and panics if the countdown hit.
pub fn tick_panic(kind: FaultKind) {
    if tick(kind) {
        panic!("injected fault: {:?}", kind);
    }
}

// ---------------------------------------------------------------- ledger

#[derive(Default)]
struct Ledger {
    created: u64,
    live: HashSet<u64>,
    drops: Vec<u32>,
    dbl: u64,
    zcreated: u64,
    zdropped: u64,
    zdrops_op: u64,
}

pub fn ledger_reset() {
    LEDGER.with(|l| *l.borrow_mut() = Ledger::default());
}

pub fn ledger_begin_line() {
    LEDGER.with(|l| {
        let mut l = l.borrow_mut();
        l.drops.clear();
        l.zdrops_op = 0;
    });
}

fn fmt_drops(mut d: Vec<u32>) -> String {
    if d.is_empty() {
        return "-".into();
    }
    if d.len() > crate::BIG {
        return "big".into();
    }
    d.sort_unstable();
    d.iter().map(|v| v.to_string()).collect::<Vec<_>>().join(",")
}

fn register() -> u64 {
    LEDGER.with(|l| {
        let mut l = l.borrow_mut();
        let id = l.created;
        l.created += 1;
        l.live.insert(id);
        id
    })
}

// ---------------------------------------------------------------- the Elem trait

#[derive(Clone, Copy, PartialEq, Eq, Debug)]
pub enum Transport {
    Str,
    Slice,
    Reader,
    Value,
}

pub enum Doc {
    S(String),
    B(Vec<u8>),
    V(serde_json::Value),
}

pub fn ser_doc<S: Serialize>(x: &S, t: Transport) -> Result<Doc, ()> {
    match t {
        Transport::Str => serde_json::to_string(x).map(Doc::S).map_err(|_| ()),
        Transport::Slice => serde_json::to_vec(x).map(Doc::B).map_err(|_| ()),
        Transport::Reader => {
            let mut buf: Vec<u8> = Vec::new();
            serde_json::to_writer(&mut buf, x).map_err(|_| ())?;
            Ok(Doc::B(buf))
        }
        Transport::Value => serde_json::to_value(x).map(Doc::V).map_err(|_| ()),
    }
}

pub fn de_doc<T: Elem>(d: &Doc, t: Transport) -> Result<TooDee<T>, ()> {
    match (d, t) {
        (Doc::S(s), Transport::Str) => serde_json::from_str(s).map_err(|_| ()),
        (Doc::B(b), Transport::Slice) => serde_json::from_slice(b).map_err(|_| ()),
        (Doc::B(b), Transport::Reader) => serde_json::from_reader(&b[..]).map_err(|_| ()),
        (Doc::V(v), Transport::Value) => serde_json::from_value(v.clone()).map_err(|_| ()),
        _ => Err(()),
    }
}

pub trait Elem: Sized + Clone + Default + Ord + Hash + Serialize + DeserializeOwned + 'static {
    /// `T: Copy` with the `Copy`-only operations wired up (`u32` and the wide kind `W`): `copy_*` ops are available.
    const IS_U32: bool = false;
    /// `Serialize` for views exists for `u32` only.
    const VIEW_SER: bool = false;
    fn mk(v: u32) -> Self;
    fn val(&self) -> u32;
    fn bump(&mut self, by: u32);
    /// `<drops> <live> <dbl>`
    fn ledger_tokens() -> String;

    // Copy-only operations: the defaults are never reached (callers check IS_U32 first).
    fn copy_from_slice<X: CopyOps<Self>>(_x: &mut X, _src: &[Self]) {
        unreachable!()
    }
    fn copy_from_toodee<X: CopyOps<Self>, S: TooDeeOps<Self>>(_x: &mut X, _src: &S) {
        unreachable!()
    }
    fn copy_within<X: CopyOps<Self>>(_x: &mut X, _src: (Coordinate, Coordinate), _dest: Coordinate) {
        unreachable!()
    }
    fn ser_view(_v: &TooDeeView<'_, Self>, _t: Transport) -> Result<Doc, ()> {
        unreachable!()
    }
    fn ser_view_mut(_v: &TooDeeViewMut<'_, Self>, _t: Transport) -> Result<Doc, ()> {
        unreachable!()
    }
}

// ---------------------------------------------------------------- u32

impl Elem for u32 {
    const IS_U32: bool = true;
    const VIEW_SER: bool = true;
    fn mk(v: u32) -> Self {
        v
    }
    fn val(&self) -> u32 {
        *self
    }
    fn bump(&mut self, by: u32) {
        *self = self.wrapping_add(by);
    }
    fn ledger_tokens() -> String {
        "- 0 0".into()
    }
    fn copy_from_slice<X: CopyOps<Self>>(x: &mut X, src: &[Self]) {
        x.copy_from_slice(src)
    }
    fn copy_from_toodee<X: CopyOps<Self>, S: TooDeeOps<Self>>(x: &mut X, src: &S) {
        x.copy_from_toodee(src)
    }
    fn copy_within<X: CopyOps<Self>>(x: &mut X, src: (Coordinate, Coordinate), dest: Coordinate) {
        x.copy_within(src, dest)
    }
    fn ser_view(v: &TooDeeView<'_, Self>, t: Transport) -> Result<Doc, ()> {
        ser_doc(v, t)
    }
    fn ser_view_mut(v: &TooDeeViewMut<'_, Self>, t: Transport) -> Result<Doc, ()> {
        ser_doc(v, t)
    }
}

// ---------------------------------------------------------------- F (a `u32` whose `==` is not reflexive for one value)
//
// Like a float with NaN: `F(NAN) != F(NAN)`.  `Eq` / `Ord` are implemented (the algorithms need them) although `==` breaks
// reflexivity for that one value — legal, and exactly what array equality has to respect: `a == a` is false for an array that
// holds such a cell (slice equality compares element by element).  No ledger.

pub const NAN: u32 = 4242424242;

#[derive(Clone, Copy, Default, Debug)]
pub struct F(pub u32);

impl PartialEq for F {
    fn eq(&self, o: &Self) -> bool {
        self.0 == o.0 && self.0 != NAN
    }
}
impl Eq for F {}
impl PartialOrd for F {
    fn partial_cmp(&self, o: &Self) -> Option<Ordering> {
        Some(self.cmp(o))
    }
}
impl Ord for F {
    fn cmp(&self, o: &Self) -> Ordering {
        self.0.cmp(&o.0)
    }
}
impl Hash for F {
    fn hash<H: Hasher>(&self, h: &mut H) {
        self.0.hash(h)
    }
}
// (de)serialised through serde's 128-bit integer entry points (the same JSON text as a `u32`): element types are free to use
// them, and code that buffers the `data` array generically (`deserialize_any`) cannot serve them
impl Serialize for F {
    fn serialize<S: Serializer>(&self, s: S) -> Result<S::Ok, S::Error> {
        s.serialize_i128(self.0 as i128)
    }
}
impl<'de> Deserialize<'de> for F {
    fn deserialize<D: Deserializer<'de>>(d: D) -> Result<Self, D::Error> {
        let v = i128::deserialize(d)?;
        u32::try_from(v).map(F).map_err(|_| serde::de::Error::custom("out of range"))
    }
}
impl Elem for F {
    fn mk(v: u32) -> Self {
        F(v)
    }
    fn val(&self) -> u32 {
        self.0
    }
    fn bump(&mut self, by: u32) {
        self.0 = self.0.wrapping_add(by);
    }
    fn ledger_tokens() -> String {
        "- 0 0".to_string()
    }
}

// ---------------------------------------------------------------- W (a wide `Copy` cell: 96 bytes)
//
// The element size is not a parameter of the model; the crate's algorithms may not depend on it either (beyond `Vec`'s
// capacity limit).  `W` behaves like `u32` in every operation but is large enough to cross any size threshold a "small cell /
// large cell" code path could use, and every word of it repeats the value so that a cell assembled from parts of two cells is
// visible (`val` then reports a poison value).  No ledger; all `Copy`-only operations are available.

#[derive(Clone, Copy, Debug)]
pub struct W {
    v: u32,
    pad: [u64; 11],
}
pub const TORN: u32 = 3735928559;

impl Default for W {
    fn default() -> Self {
        W::mk(0)
    }
}
impl PartialEq for W {
    fn eq(&self, o: &Self) -> bool {
        self.val() == o.val()
    }
}
impl Eq for W {}
impl PartialOrd for W {
    fn partial_cmp(&self, o: &Self) -> Option<Ordering> {
        Some(self.cmp(o))
    }
}
impl Ord for W {
    fn cmp(&self, o: &Self) -> Ordering {
        self.val().cmp(&o.val())
    }
}
impl Hash for W {
    fn hash<H: Hasher>(&self, h: &mut H) {
        self.val().hash(h)
    }
}
impl Serialize for W {
    fn serialize<S: Serializer>(&self, s: S) -> Result<S::Ok, S::Error> {
        s.serialize_u32(self.val())
    }
}
impl<'de> Deserialize<'de> for W {
    fn deserialize<D: Deserializer<'de>>(d: D) -> Result<Self, D::Error> {
        u32::deserialize(d).map(W::mk)
    }
}
impl Elem for W {
    const IS_U32: bool = true;
    fn mk(v: u32) -> Self {
        W { v, pad: [v as u64; 11] }
    }
    fn val(&self) -> u32 {
        if self.pad.iter().all(|&p| p == self.v as u64) {
            self.v
        } else {
            TORN
        }
    }
    fn bump(&mut self, by: u32) {
        *self = W::mk(self.val().wrapping_add(by));
    }
    fn ledger_tokens() -> String {
        "- 0 0".into()
    }
    fn copy_from_slice<X: CopyOps<Self>>(x: &mut X, src: &[Self]) {
        x.copy_from_slice(src)
    }
    fn copy_from_toodee<X: CopyOps<Self>, S: TooDeeOps<Self>>(x: &mut X, src: &S) {
        x.copy_from_toodee(src)
    }
    fn copy_within<X: CopyOps<Self>>(x: &mut X, src: (Coordinate, Coordinate), dest: Coordinate) {
        x.copy_within(src, dest)
    }
}

// ---------------------------------------------------------------- E (cell)

pub struct E {
    val: u32,
    id: u64,
}

impl Elem for E {
    fn mk(v: u32) -> Self {
        E { val: v, id: register() }
    }
    fn val(&self) -> u32 {
        self.val
    }
    fn bump(&mut self, by: u32) {
        self.val = self.val.wrapping_add(by);
    }
    fn ledger_tokens() -> String {
        LEDGER.with(|l| {
            let l = l.borrow();
            format!("{} {} {}", fmt_drops(l.drops.clone()), l.live.len(), l.dbl)
        })
    }
}

impl Clone for E {
    fn clone(&self) -> Self {
        tick_panic(FaultKind::Clone);
        E::mk(self.val)
    }
}

impl Default for E {
    fn default() -> Self {
        tick_panic(FaultKind::Default);
        E::mk(0)
    }
}

impl Drop for E {
    fn drop(&mut self) {
        let (val, id) = (self.val, self.id);
        let _ = LEDGER.try_with(|l| {
            if let Ok(mut l) = l.try_borrow_mut() {
                if !l.live.remove(&id) {
                    l.dbl += 1;
                }
                l.drops.push(val);
            }
        });
        if tick(FaultKind::Drop) && !std::thread::panicking() {
            panic!("injected fault: Drop");
        }
    }
}

impl PartialEq for E {
    fn eq(&self, o: &Self) -> bool {
        self.val == o.val
    }
}
impl Eq for E {}
impl PartialOrd for E {
    fn partial_cmp(&self, o: &Self) -> Option<Ordering> {
        Some(self.cmp(o))
    }
}
impl Ord for E {
    fn cmp(&self, o: &Self) -> Ordering {
        self.val.cmp(&o.val)
    }
}
impl Hash for E {
    fn hash<H: Hasher>(&self, h: &mut H) {
        self.val.hash(h)
    }
}
impl Serialize for E {
    fn serialize<S: Serializer>(&self, s: S) -> Result<S::Ok, S::Error> {
        s.serialize_u32(self.val)
    }
}
impl<'de> Deserialize<'de> for E {
    fn deserialize<D: Deserializer<'de>>(d: D) -> Result<Self, D::Error> {
        u32::deserialize(d).map(E::mk)
    }
}

// ---------------------------------------------------------------- EW (widecell: a ledgered cell of 96 bytes)
//
// `cell` with 80 bytes of padding that repeat the value: non-`Copy`, drop glue, the same ledger and fault countdowns (every
// trait goes through `E`), but on the far side of any size threshold; a cell assembled from two cells reports `TORN`.

pub struct EW(E, [u64; 10]);

impl Elem for EW {
    fn mk(v: u32) -> Self {
        EW(E::mk(v), [v as u64; 10])
    }
    fn val(&self) -> u32 {
        let v = self.0.val();
        if self.1.iter().all(|&p| p == v as u64) {
            v
        } else {
            TORN
        }
    }
    fn bump(&mut self, by: u32) {
        self.0.bump(by);
        self.1 = [self.0.val() as u64; 10];
    }
    fn ledger_tokens() -> String {
        E::ledger_tokens()
    }
}
impl Clone for EW {
    fn clone(&self) -> Self {
        EW(self.0.clone(), self.1)
    }
}
impl Default for EW {
    fn default() -> Self {
        EW(E::default(), [0; 10])
    }
}
impl PartialEq for EW {
    fn eq(&self, o: &Self) -> bool {
        self.val() == o.val()
    }
}
impl Eq for EW {}
impl PartialOrd for EW {
    fn partial_cmp(&self, o: &Self) -> Option<Ordering> {
        Some(self.cmp(o))
    }
}
impl Ord for EW {
    fn cmp(&self, o: &Self) -> Ordering {
        self.val().cmp(&o.val())
    }
}
impl Hash for EW {
    fn hash<H: Hasher>(&self, h: &mut H) {
        self.val().hash(h)
    }
}
impl Serialize for EW {
    fn serialize<S: Serializer>(&self, s: S) -> Result<S::Ok, S::Error> {
        s.serialize_u32(self.val())
    }
}
impl<'de> Deserialize<'de> for EW {
    fn deserialize<D: Deserializer<'de>>(d: D) -> Result<Self, D::Error> {
        u32::deserialize(d).map(EW::mk)
    }
}

// ---------------------------------------------------------------- () (zero-sized, `Copy`, no drop glue)
//
// `vec![(); n]` is O(1) for every `n` (std specialises it), so `TooDee::init(c, r, ())` can build arrays with up to
// `usize::MAX` cells: the only way to run the crate's index arithmetic at the top of the `usize` range.  No ledger.

impl Elem for () {
    fn mk(_v: u32) -> Self {}
    fn val(&self) -> u32 {
        0
    }
    fn bump(&mut self, _by: u32) {}
    fn ledger_tokens() -> String {
        "- 0 0".to_string()
    }
}

// ---------------------------------------------------------------- Z (zero-sized)

#[derive(PartialEq, Eq, PartialOrd, Ord, Hash)]
pub struct Z;

fn z_new() -> Z {
    LEDGER.with(|l| l.borrow_mut().zcreated += 1);
    Z
}

impl Elem for Z {
    fn mk(_v: u32) -> Self {
        z_new()
    }
    fn val(&self) -> u32 {
        0
    }
    fn bump(&mut self, _by: u32) {}
    fn ledger_tokens() -> String {
        LEDGER.with(|l| {
            let l = l.borrow();
            let drops = if l.zdrops_op == 0 {
                "-".to_string()
            } else if l.zdrops_op > crate::BIG as u64 {
                "big".to_string()
            } else {
                vec!["0"; l.zdrops_op as usize].join(",")
            };
            let live = l.zcreated as i128 - l.zdropped as i128;
            format!("{} {} 0", drops, live)
        })
    }
}

impl Clone for Z {
    fn clone(&self) -> Self {
        z_new()
    }
}
impl Default for Z {
    fn default() -> Self {
        z_new()
    }
}
impl Drop for Z {
    fn drop(&mut self) {
        let _ = LEDGER.try_with(|l| {
            if let Ok(mut l) = l.try_borrow_mut() {
                l.zdropped += 1;
                l.zdrops_op += 1;
            }
        });
    }
}
impl Serialize for Z {
    fn serialize<S: Serializer>(&self, s: S) -> Result<S::Ok, S::Error> {
        s.serialize_u32(0)
    }
}
impl<'de> Deserialize<'de> for Z {
    fn deserialize<D: Deserializer<'de>>(d: D) -> Result<Self, D::Error> {
        u32::deserialize(d).map(|_| z_new())
    }
}
