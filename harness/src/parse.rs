//! Parsing of op lines (PROTOCOL §5, §6) into a typed command.  Anything that does not parse
//! exactly yields `None` (→ `bad-op`).

use crate::elem::{FaultKind, Transport};

pub type Win = (usize, usize, usize, usize);

#[derive(Clone, Debug, PartialEq)]
pub enum Seg {
    X,
    V(Win),
    W(Win),
    SMut(usize, usize, usize),
    SRef(usize, usize, usize),
}

/// What the last segment of the receiver denotes.
#[derive(Clone, Copy, PartialEq, Eq, Debug)]
pub enum Last {
    Root,
    Ext,
    ViewMut,
    View,
}

#[derive(Clone, Copy, Debug, PartialEq)]
pub enum Step {
    Next,
    Back,
    Nth(usize),
    NthBack(usize),
    Len,
    Hint,
    Width,
    Idx(usize),
    Count,
    Last,
    Fold,
    RFold,
}

#[derive(Clone, Copy, Debug, PartialEq)]
pub enum ItKind {
    Rows,
    RowsMut,
    Col(usize),
    ColMut(usize),
    Cells,
    CellsMut,
    IterRef,
    IterMut,
}

#[derive(Clone, Copy, Debug, PartialEq)]
pub enum SortKind {
    ByRow,
    UnstableByRow,
    ByRowKey,
    UnstableByRowKey,
    RowOrd,
    UnstableRowOrd,
    ByCol,
    UnstableByCol,
    ByColKey,
    UnstableByColKey,
    ColOrd,
}

#[derive(Clone, Debug, PartialEq)]
pub enum Op {
    // 6.1
    New(usize, usize),
    Init(usize, usize, u32),
    FromVec(usize, usize, Vec<u32>),
    FromBox(usize, usize, Vec<u32>),
    Default,
    WithCapacity(usize),
    // 6.2
    IntoVec,
    IntoBox,
    IntoIter(usize),
    ToOwned,
    Clone,
    Eq(usize, usize, Vec<u32>),
    CloneFrom(usize, usize, Vec<u32>),
    EqSelf,
    ViewEq,
    // 6.3
    Get(usize, usize),
    RowGet(usize, usize),
    Row(usize),
    ColGet(usize, usize),
    GetU(usize, usize),
    RowU(usize),
    Set(usize, usize, u32),
    RowSet(usize, usize, u32),
    ColSet(usize, usize, u32),
    ColMGet(usize, usize),
    SetU(usize, usize, u32),
    RowSetU(usize, usize, u32),
    Size,
    IsEmpty,
    Dump,
    DumpPos,
    Lens,
    // 6.4
    Iter(ItKind, Vec<Step>),
    // 6.5 (index None = push/pop)
    InsertRow(Option<usize>, usize, Vec<Option<u32>>),
    InsertCol(Option<usize>, usize, Vec<Option<u32>>),
    RemoveRow(Option<usize>, Vec<Step>, DrainEnd),
    RemoveCol(Option<usize>, Vec<Step>, DrainEnd),
    Clear,
    SwapDimensions,
    Reserve(usize),
    ReserveExact(usize),
    ShrinkToFit,
    Capacity,
    // 6.6
    Fill(u32),
    Swap(usize, usize, usize, usize),
    SwapRows(usize, usize),
    SwapCols(usize, usize),
    RowPair(usize, usize),
    CopyFromSlice(Vec<u32>),
    CloneFromSlice(Vec<u32>),
    /// (clone?, C, R, list, optional window of the source)
    FromTooDee(bool, usize, usize, Vec<u32>, Option<Win>),
    CopyWithin(Win, usize, usize),
    Translate(usize, usize),
    FlipRows,
    FlipCols,
    Sort(SortKind, usize),
    // 6.8
    Ser,
    Roundtrip(Transport),
    De(Transport, String),
}

#[derive(Debug)]
pub struct Cmd {
    pub recv: Vec<Seg>,
    pub op: Op,
    pub fault: Option<(FaultKind, u64)>,
}

impl Cmd {
    pub fn last(&self) -> Last {
        match self.recv.last() {
            None => Last::Root,
            Some(Seg::X) => Last::Ext,
            Some(Seg::V(_)) | Some(Seg::SMut(..)) => Last::ViewMut,
            Some(Seg::W(_)) | Some(Seg::SRef(..)) => Last::View,
        }
    }
}

fn digits(s: &str) -> bool {
    !s.is_empty() && s.bytes().all(|b| b.is_ascii_digit())
}
pub fn num(s: &str) -> Option<usize> {
    if digits(s) { s.parse().ok() } else { None }
}
fn num64(s: &str) -> Option<u64> {
    if digits(s) { s.parse().ok() } else { None }
}
fn val(s: &str) -> Option<u32> {
    if digits(s) { s.parse().ok() } else { None }
}
fn list(s: &str) -> Option<Vec<u32>> {
    if s == "-" {
        return Some(Vec::new());
    }
    s.split(',').map(val).collect()
}
fn items(s: &str) -> Option<Vec<Option<u32>>> {
    if s == "-" {
        return Some(Vec::new());
    }
    s.split(',').map(|e| if e == "!" { Some(None) } else { val(e).map(Some) }).collect()
}
fn transport(s: &str) -> Option<Transport> {
    Some(match s {
        "str" => Transport::Str,
        "slice" => Transport::Slice,
        "reader" => Transport::Reader,
        "value" => Transport::Value,
        _ => return None,
    })
}

fn parse_fault(tok: &str) -> Option<(FaultKind, u64)> {
    let rest = tok.strip_prefix('!')?;
    let (k, n) = rest.split_once(':')?;
    let kind = match k {
        "clone" => FaultKind::Clone,
        "drop" => FaultKind::Drop,
        "default" => FaultKind::Default,
        "cmp" => FaultKind::Cmp,
        "key" => FaultKind::Key,
        _ => return None,
    };
    Some((kind, num64(n)?))
}

fn parse_recv(tok: &str) -> Option<Vec<Seg>> {
    let mut s = tok.strip_prefix('@')?;
    let mut segs: Vec<Seg> = Vec::new();
    while !s.is_empty() {
        let first = segs.is_empty();
        let shared = matches!(segs.last(), Some(Seg::W(_)) | Some(Seg::SRef(..)));
        let c = s.chars().next()?;
        s = &s[c.len_utf8()..];
        if c == 'x' {
            if !first {
                return None;
            }
            segs.push(Seg::X);
            continue;
        }
        let body = s.strip_prefix('(')?;
        let close = body.find(')')?;
        let nums: Vec<usize> = body[..close].split(',').map(num).collect::<Option<_>>()?;
        s = &body[close + 1..];
        let seg = match (c, nums.len()) {
            ('v', 4) if !shared => Seg::V((nums[0], nums[1], nums[2], nums[3])),
            ('w', 4) => Seg::W((nums[0], nums[1], nums[2], nums[3])),
            ('S', 3) if first => Seg::SMut(nums[0], nums[1], nums[2]),
            ('s', 3) if first => Seg::SRef(nums[0], nums[1], nums[2]),
            _ => return None,
        };
        segs.push(seg);
    }
    Some(segs)
}

/// `col_like`: `i<k>` allowed, `w` not.  Consuming steps must come last.
fn word(s: &str, col_like: bool) -> Option<Vec<Step>> {
    if s == "-" {
        return Some(Vec::new());
    }
    let mut out = Vec::new();
    let parts: Vec<&str> = s.split(',').collect();
    for (i, p) in parts.iter().enumerate() {
        let st = match *p {
            "n" => Step::Next,
            "b" => Step::Back,
            "l" => Step::Len,
            "h" => Step::Hint,
            "w" if !col_like => Step::Width,
            "c" => Step::Count,
            "L" => Step::Last,
            "f" => Step::Fold,
            "r" => Step::RFold,
            _ => {
                let (h, t) = p.split_at(p.chars().next()?.len_utf8());
                match h {
                    "N" => Step::Nth(num(t)?),
                    "B" => Step::NthBack(num(t)?),
                    "i" if col_like => Step::Idx(num(t)?),
                    _ => return None,
                }
            }
        };
        let consuming = matches!(st, Step::Count | Step::Last | Step::Fold | Step::RFold);
        if consuming && i + 1 != parts.len() {
            return None;
        }
        out.push(st);
    }
    Some(out)
}

fn drain_word(s: &str) -> Option<Vec<Step>> {
    let w = word(s, true)?;
    if w.iter().all(|s| matches!(s, Step::Next | Step::Back | Step::Len | Step::Hint | Step::Nth(_) | Step::NthBack(_))) {
        Some(w)
    } else {
        None
    }
}

/// how a drain's life ends: dropped, forgotten, or consumed by value through `fold` / `rfold`
#[derive(Clone, Copy, Debug, PartialEq, Eq)]
pub enum DrainEnd {
    Drop,
    Leak,
    Fold,
    RFold,
}

fn drain_end(s: &str) -> Option<DrainEnd> {
    match s {
        "drop" => Some(DrainEnd::Drop),
        "leak" => Some(DrainEnd::Leak),
        "fold" => Some(DrainEnd::Fold),
        "rfold" => Some(DrainEnd::RFold),
        _ => None,
    }
}

pub fn parse_line(line: &str) -> Option<Cmd> {
    let line = line.trim_end_matches(['\r', '\n']);
    let mut toks: Vec<&str> = line.split(' ').collect();
    if toks.len() < 2 || (toks[1] != "de" && toks.iter().any(|t| t.is_empty())) {
        return None;
    }
    let recv = parse_recv(toks[0])?;
    let mut fault = None;
    if toks.len() > 2 {
        if let Some(f) = parse_fault(toks[toks.len() - 1]) {
            fault = Some(f);
            toks.pop();
        }
    }
    let name = toks[1];
    let a = &toks[2..];
    // `de <t> <json>`: the JSON is the raw rest of the line.
    if name == "de" {
        if a.len() < 2 {
            return None;
        }
        let t = transport(a[0])?;
        return Some(Cmd { recv, op: Op::De(t, a[1..].join(" ")), fault });
    }
    let n = |i: usize| -> Option<usize> { num(a.get(i)?) };
    let v = |i: usize| -> Option<u32> { val(a.get(i)?) };
    let l = |i: usize| -> Option<Vec<u32>> { list(a.get(i)?) };
    let argc = |k: usize| -> Option<()> { if a.len() == k { Some(()) } else { None } };
    let sort = |k: SortKind| -> Option<Op> {
        argc(1)?;
        Some(Op::Sort(k, n(0)?))
    };
    let op = match name {
        "new" => { argc(2)?; Op::New(n(0)?, n(1)?) }
        "init" => { argc(3)?; Op::Init(n(0)?, n(1)?, v(2)?) }
        "from_vec" => { argc(3)?; Op::FromVec(n(0)?, n(1)?, l(2)?) }
        "from_box" => { argc(3)?; Op::FromBox(n(0)?, n(1)?, l(2)?) }
        "default" => { argc(0)?; Op::Default }
        "with_capacity" => { argc(1)?; Op::WithCapacity(n(0)?) }
        "into_vec" => { argc(0)?; Op::IntoVec }
        "into_box" => { argc(0)?; Op::IntoBox }
        "into_iter" => { argc(1)?; Op::IntoIter(n(0)?) }
        "to_owned" => { argc(0)?; Op::ToOwned }
        "clone" => { argc(0)?; Op::Clone }
        "eq" => { argc(3)?; Op::Eq(n(0)?, n(1)?, l(2)?) }
        "eqself" => { argc(0)?; Op::EqSelf }
        "clone_from" => { argc(3)?; Op::CloneFrom(n(0)?, n(1)?, l(2)?) }
        "vieweq" => { argc(0)?; Op::ViewEq }
        "get" => { argc(2)?; Op::Get(n(0)?, n(1)?) }
        "rowget" => { argc(2)?; Op::RowGet(n(0)?, n(1)?) }
        "row" => { argc(1)?; Op::Row(n(0)?) }
        "colget" => { argc(2)?; Op::ColGet(n(0)?, n(1)?) }
        "getu" => { argc(2)?; Op::GetU(n(0)?, n(1)?) }
        "rowu" => { argc(1)?; Op::RowU(n(0)?) }
        "set" => { argc(3)?; Op::Set(n(0)?, n(1)?, v(2)?) }
        "rowset" => { argc(3)?; Op::RowSet(n(0)?, n(1)?, v(2)?) }
        "colset" => { argc(3)?; Op::ColSet(n(0)?, n(1)?, v(2)?) }
        "colmget" => { argc(2)?; Op::ColMGet(n(0)?, n(1)?) }
        "setu" => { argc(3)?; Op::SetU(n(0)?, n(1)?, v(2)?) }
        "rowsetu" => { argc(3)?; Op::RowSetU(n(0)?, n(1)?, v(2)?) }
        "size" => { argc(0)?; Op::Size }
        "is_empty" => { argc(0)?; Op::IsEmpty }
        "dump" => { argc(0)?; Op::Dump }
        "dumppos" => { argc(0)?; Op::DumpPos }
        "lens" => { argc(0)?; Op::Lens }
        "rows" => { argc(1)?; Op::Iter(ItKind::Rows, word(a[0], false)?) }
        "rows_mut" => { argc(1)?; Op::Iter(ItKind::RowsMut, word(a[0], false)?) }
        "cells" => { argc(1)?; Op::Iter(ItKind::Cells, word(a[0], false)?) }
        "cells_mut" => { argc(1)?; Op::Iter(ItKind::CellsMut, word(a[0], false)?) }
        "iter_ref" => { argc(1)?; Op::Iter(ItKind::IterRef, word(a[0], false)?) }
        "iter_mut" => { argc(1)?; Op::Iter(ItKind::IterMut, word(a[0], false)?) }
        "col" => { argc(2)?; Op::Iter(ItKind::Col(n(0)?), word(a[1], true)?) }
        "col_mut" => { argc(2)?; Op::Iter(ItKind::ColMut(n(0)?), word(a[1], true)?) }
        "insert_row" => { argc(3)?; Op::InsertRow(Some(n(0)?), n(1)?, items(a[2])?) }
        "push_row" => { argc(2)?; Op::InsertRow(None, n(0)?, items(a[1])?) }
        "insert_col" => { argc(3)?; Op::InsertCol(Some(n(0)?), n(1)?, items(a[2])?) }
        "push_col" => { argc(2)?; Op::InsertCol(None, n(0)?, items(a[1])?) }
        "remove_row" => { argc(3)?; Op::RemoveRow(Some(n(0)?), drain_word(a[1])?, drain_end(a[2])?) }
        "pop_row" => { argc(2)?; Op::RemoveRow(None, drain_word(a[0])?, drain_end(a[1])?) }
        "remove_col" => { argc(3)?; Op::RemoveCol(Some(n(0)?), drain_word(a[1])?, drain_end(a[2])?) }
        "pop_col" => { argc(2)?; Op::RemoveCol(None, drain_word(a[0])?, drain_end(a[1])?) }
        "clear" => { argc(0)?; Op::Clear }
        "swap_dimensions" => { argc(0)?; Op::SwapDimensions }
        "reserve" => { argc(1)?; Op::Reserve(n(0)?) }
        "reserve_exact" => { argc(1)?; Op::ReserveExact(n(0)?) }
        "shrink_to_fit" => { argc(0)?; Op::ShrinkToFit }
        "capacity" => { argc(0)?; Op::Capacity }
        "fill" => { argc(1)?; Op::Fill(v(0)?) }
        "swap" => { argc(4)?; Op::Swap(n(0)?, n(1)?, n(2)?, n(3)?) }
        "swap_rows" => { argc(2)?; Op::SwapRows(n(0)?, n(1)?) }
        "swap_cols" => { argc(2)?; Op::SwapCols(n(0)?, n(1)?) }
        "row_pair" => { argc(2)?; Op::RowPair(n(0)?, n(1)?) }
        "copy_from_slice" => { argc(1)?; Op::CopyFromSlice(l(0)?) }
        "clone_from_slice" => { argc(1)?; Op::CloneFromSlice(l(0)?) }
        "copy_from_toodee" | "clone_from_toodee" => {
            let win = match a.len() {
                3 => None,
                7 => Some((n(3)?, n(4)?, n(5)?, n(6)?)),
                _ => return None,
            };
            Op::FromTooDee(name.starts_with("clone"), n(0)?, n(1)?, l(2)?, win)
        }
        "copy_within" => { argc(6)?; Op::CopyWithin((n(0)?, n(1)?, n(2)?, n(3)?), n(4)?, n(5)?) }
        "translate" => { argc(2)?; Op::Translate(n(0)?, n(1)?) }
        "flip_rows" => { argc(0)?; Op::FlipRows }
        "flip_cols" => { argc(0)?; Op::FlipCols }
        "sort_by_row" => sort(SortKind::ByRow)?,
        "sort_unstable_by_row" => sort(SortKind::UnstableByRow)?,
        "sort_by_row_key" => sort(SortKind::ByRowKey)?,
        "sort_unstable_by_row_key" => sort(SortKind::UnstableByRowKey)?,
        "sort_row_ord" => sort(SortKind::RowOrd)?,
        "sort_unstable_row_ord" => sort(SortKind::UnstableRowOrd)?,
        "sort_by_col" => sort(SortKind::ByCol)?,
        "sort_unstable_by_col" => sort(SortKind::UnstableByCol)?,
        "sort_by_col_key" => sort(SortKind::ByColKey)?,
        "sort_unstable_by_col_key" => sort(SortKind::UnstableByColKey)?,
        "sort_col_ord" => sort(SortKind::ColOrd)?,
        "ser" => { argc(0)?; Op::Ser }
        "roundtrip" => { argc(1)?; Op::Roundtrip(transport(a[0])?) }
        _ => return None,
    };
    Some(Cmd { recv, op, fault })
}

/// Receiver-class check (PROTOCOL §5): returns false if the op is not valid on this receiver.
pub fn receiver_ok(cmd: &Cmd) -> bool {
    use Op::*;
    let last = cmd.last();
    let root = last == Last::Root;
    let mutable = last != Last::View;
    let view = matches!(last, Last::View | Last::ViewMut);
    match &cmd.op {
        New(..) | Init(..) | FromVec(..) | FromBox(..) | Default | WithCapacity(_) | IntoVec | IntoBox
        | IntoIter(_) | Clone | Eq(..) | EqSelf | CloneFrom(..) | InsertRow(..) | InsertCol(..) | RemoveRow(..) | RemoveCol(..) | Clear
        | SwapDimensions | Reserve(_) | ReserveExact(_) | ShrinkToFit | Capacity | De(..) => root,
        ToOwned => view,
        ViewEq => last == Last::View,
        Ser | Roundtrip(_) => root || view,
        Set(..) | RowSet(..) | ColSet(..) | ColMGet(..) | SetU(..) | RowSetU(..) | Fill(_) | Swap(..) | SwapRows(..)
        | SwapCols(..) | RowPair(..) | CopyFromSlice(_) | CloneFromSlice(_) | FromTooDee(..) | CopyWithin(..)
        | Translate(..) | FlipRows | FlipCols | Sort(..) => mutable,
        Iter(k, _) => match k {
            ItKind::RowsMut | ItKind::ColMut(_) | ItKind::CellsMut | ItKind::IterMut => mutable,
            _ => true,
        },
        Get(..) | RowGet(..) | Row(_) | ColGet(..) | GetU(..) | RowU(_) | Size | IsEmpty | Dump | DumpPos | Lens => true,
    }
}
