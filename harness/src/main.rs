//! `tdharness`: executes a case file (PROTOCOL.md §1–6) against the real `toodee` crate and
//! prints exactly one observation line per input line, flushing after each.

mod elem;
mod exec;
mod parse;

use elem::{disarm, ledger_begin_line, ledger_reset, Elem, E, EW, F, W, Z};
use exec::{resolve, vals, Exec, Pos, St};
use parse::{parse_line, receiver_ok, Cmd, ItKind, Last, Op};
use std::cell::RefCell;
use std::collections::VecDeque;
use std::io::{BufRead, BufReader, Read, Write};
use std::panic::{catch_unwind, AssertUnwindSafe};
use toodee::{TooDee, TooDeeOps};

/// Lists longer than this are printed as `big`.
pub const BIG: usize = 131072;

const NO_CASE: &str = "bad-op | 0 0 0 - | - 0 0";

struct Io {
    rd: Box<dyn BufRead>,
    out: std::io::Stdout,
}

impl Io {
    fn read(&mut self) -> Option<String> {
        let mut buf: Vec<u8> = Vec::new();
        match self.rd.read_until(b'\n', &mut buf) {
            Ok(0) | Err(_) => None,
            Ok(_) => {
                while matches!(buf.last(), Some(b'\n') | Some(b'\r')) {
                    buf.pop();
                }
                Some(String::from_utf8_lossy(&buf).into_owned())
            }
        }
    }
    fn emit(&mut self, s: &str) {
        let mut o = self.out.lock();
        if writeln!(o, "{}", s).is_err() || o.flush().is_err() {
            std::process::exit(0);
        }
    }
}

fn state<T: Elem>(td: &TooDee<T>) -> String {
    let l = td.data().len();
    let data = if l > BIG { "big".to_string() } else { vals(td.data()) };
    format!("{} {} {} {}", td.num_cols(), td.num_rows(), l, data)
}

/// Ops that exist in the protocol but cannot be executed for this element kind / receiver.
fn unsupported<T: Elem>(cmd: &Cmd) -> bool {
    let last = cmd.last();
    match &cmd.op {
        Op::CopyFromSlice(_) | Op::CopyWithin(..) | Op::FromTooDee(false, ..) => !T::IS_U32,
        Op::Ser | Op::Roundtrip(_) => last != Last::Root && !T::VIEW_SER,
        Op::Iter(ItKind::IterRef, _) | Op::Iter(ItKind::IterMut, _) => last == Last::Ext,
        _ => false,
    }
}

fn run_line<T: Elem>(td: &mut TooDee<T>, line: &str) -> String {
    ledger_begin_line();
    let out: RefCell<Vec<String>> = RefCell::new(Vec::new());
    let status = match parse_line(line) {
        None => "bad-op",
        Some(cmd) if !receiver_ok(&cmd) => "bad-op",
        Some(cmd) if unsupported::<T>(&cmd) => "unsupported",
        Some(cmd) => {
            let script: RefCell<VecDeque<Option<T>>> = RefCell::new(match &cmd.op {
                Op::InsertRow(_, _, items) | Op::InsertCol(_, _, items) => items.iter().map(|e| e.map(T::mk)).collect(),
                _ => VecDeque::new(),
            });
            let pos = Pos { base: td.data().as_ptr() as usize };
            let ex = Exec { op: &cmd.op, pos, out: &out, fault: cmd.fault, script: &script };
            let r = catch_unwind(AssertUnwindSafe(|| resolve(td, &cmd.recv, &ex)));
            disarm();
            // Leftover script items are dropped here, inside the op's accounting window.
            let _ = catch_unwind(AssertUnwindSafe(move || drop(script)));
            match r {
                Ok(St::Ok) => "ok",
                Ok(St::Unsupported) => "unsupported",
                Err(_) => "panic",
            }
        }
    };
    let mut s = String::from(status);
    for t in out.into_inner() {
        s.push(' ');
        s.push_str(&t);
    }
    format!("{} | {} | {}", s, state(td), T::ledger_tokens())
}

fn parse_case(line: &str) -> Option<(String, &'static str)> {
    let t: Vec<&str> = line.split(' ').collect();
    if t.len() != 3 || t[0] != "case" || t[1].is_empty() {
        return None;
    }
    let kind = match t[2] {
        "elem=u32" => "u32",
        "elem=cell" => "cell",
        "elem=zst" => "zst",
        "elem=unit" => "unit",
        "elem=nan" => "nan",
        "elem=wide" => "wide",
        "elem=widecell" => "widecell",
        _ => return None,
    };
    Some((t[1].to_string(), kind))
}

/// Runs one case body; returns a line that must be re-processed by the caller (a `case` header
/// met before `end`), if any.
fn run_case<T: Elem>(io: &mut Io) -> Option<String> {
    ledger_reset();
    let mut td: TooDee<T> = TooDee::default();
    loop {
        let Some(line) = io.read() else {
            let _ = catch_unwind(AssertUnwindSafe(move || drop(td)));
            return None;
        };
        if line.starts_with('#') {
            io.emit(&line);
        } else if line == "end" {
            ledger_begin_line();
            let r = catch_unwind(AssertUnwindSafe(|| td = TooDee::default()));
            let status = if r.is_ok() { "ok" } else { "panic" };
            io.emit(&format!("{} | {} | {}", status, state(&td), T::ledger_tokens()));
            return None;
        } else if parse_case(&line).is_some() {
            let _ = catch_unwind(AssertUnwindSafe(move || drop(td)));
            return Some(line);
        } else {
            let obs = run_line(&mut td, &line);
            io.emit(&obs);
        }
    }
}

fn main() {
    std::panic::set_hook(Box::new(|_| {}));
    let arg = std::env::args().nth(1);
    let rd: Box<dyn Read> = match arg.as_deref() {
        None | Some("-") => Box::new(std::io::stdin()),
        Some(p) => match std::fs::File::open(p) {
            Ok(f) => Box::new(f),
            Err(e) => {
                eprintln!("tdharness: cannot open {}: {}", p, e);
                std::process::exit(2);
            }
        },
    };
    let mut io = Io { rd: Box::new(BufReader::new(rd)), out: std::io::stdout() };
    let mut pending: Option<String> = None;
    loop {
        let Some(line) = pending.take().or_else(|| io.read()) else { break };
        if line.starts_with('#') {
            io.emit(&line);
        } else if let Some((id, kind)) = parse_case(&line) {
            io.emit(&format!("case {}", id));
            pending = match kind {
                "u32" => run_case::<u32>(&mut io),
                "cell" => run_case::<E>(&mut io),
                "unit" => run_case::<()>(&mut io),
                "nan" => run_case::<F>(&mut io),
                "wide" => run_case::<W>(&mut io),
                "widecell" => run_case::<EW>(&mut io),
                _ => run_case::<Z>(&mut io),
            };
        } else {
            io.emit(NO_CASE);
        }
    }
}
