#!/usr/bin/env python3
"""Orchestrator of the toodee verification checks (see DESIGN.md §5, §7).

  python3 check.py --setup                       build everything (Lean proofs + driver, harness debug+release)
  python3 check.py Cxx --tier quick|thorough     run the check of one property
  python3 check.py Cxx --replay <file>           re-run one replay/case file and show R / M / S side by side

Exit 0: the property held on everything explored.  Exit 1: a line `VIOLATION property=<id> replay=<path>` was printed.
"""
import sys, os, json, time, subprocess, hashlib, re, fcntl, random, shutil

VERIF = os.path.dirname(os.path.abspath(__file__))
REPO = os.environ.get("TOODEE_REPO", "/repo")
BUILD = os.path.join(VERIF, ".build")
LEAN = os.path.join(VERIF, "lean")
HARNESS = os.path.join(VERIF, "harness")
TARGET = os.path.join(BUILD, "harness-target")
if os.path.realpath(REPO) != "/repo":
    # evaluation of a scratch copy of the crate (selftest scripts, `vp run --with-repo`): the registered commands never set
    # TOODEE_REPO.  A private copy of the harness depends on that copy by path and builds into its own target directory.
    _tag = hashlib.sha256(os.path.realpath(REPO).encode()).hexdigest()[:10]
    _alt = os.path.join(BUILD, "harness-" + _tag)
    if not os.path.exists(os.path.join(_alt, "Cargo.toml")):
        os.makedirs(BUILD, exist_ok=True)
        shutil.copytree(HARNESS, _alt, ignore=shutil.ignore_patterns("target"), dirs_exist_ok=True)
        _ct = open(os.path.join(_alt, "Cargo.toml")).read().replace('path = "/repo"', 'path = "%s"' % os.path.realpath(REPO))
        open(os.path.join(_alt, "Cargo.toml"), "w").write(_ct)
    HARNESS = _alt
    TARGET = os.path.join(BUILD, "harness-target-" + _tag)
DRIVER = os.path.join(LEAN, ".lake", "build", "bin", "tdmodel")
ALLOWED_AXIOMS = {"propext", "Classical.choice", "Quot.sound"}
MAX_DEATHS = 4
STALL_S = 20

sys.path.insert(0, VERIF)
import gen  # noqa: E402
import anchors  # noqa: E402


def log(*a):
    print(*a, file=sys.stderr, flush=True)


def run(cmd, **kw):
    return subprocess.run(cmd, capture_output=True, text=True, **kw)


class Lock:
    def __init__(self, name):
        os.makedirs(BUILD, exist_ok=True)
        self.path = os.path.join(BUILD, "lock." + name)

    def __enter__(self):
        self.f = open(self.path, "w")
        fcntl.flock(self.f, fcntl.LOCK_EX)

    def __exit__(self, *a):
        fcntl.flock(self.f, fcntl.LOCK_UN)
        self.f.close()


# ----------------------------------------------------------------------------- builds

def repo_hash():
    h = hashlib.sha256()
    files = [os.path.join(REPO, "Cargo.toml")]
    for root, _, fs in os.walk(os.path.join(REPO, "src")):
        for f in sorted(fs):
            files.append(os.path.join(root, f))
    for p in sorted(files):
        h.update(p.encode())
        with open(p, "rb") as fh:
            h.update(fh.read())
    return h.hexdigest()


def build_harness(profile):
    """Build tdharness against /repo's *current working tree*. Returns (ok, message, binary)."""
    env = dict(os.environ, CARGO_NET_OFFLINE="true", CARGO_TARGET_DIR=TARGET)
    with Lock("cargo-" + profile):
        os.makedirs(TARGET, exist_ok=True)
        stamp = os.path.join(TARGET, "src.hash." + profile)
        cur = repo_hash()
        old = open(stamp).read().strip() if os.path.exists(stamp) else ""
        if cur != old:
            # cargo's mtime fingerprint could miss an edit that preserves mtimes: force toodee to be rebuilt
            args = ["cargo", "clean", "--offline", "-p", "toodee"] + (["--release"] if profile == "release" else [])
            run(args, cwd=HARNESS, env=env)
        args = ["cargo", "build", "--offline"] + (["--release"] if profile == "release" else [])
        r = run(args, cwd=HARNESS, env=env)
        if r.returncode != 0:
            return False, r.stderr[-4000:], None
        with open(stamp, "w") as f:
            f.write(cur)
    return True, "", os.path.join(TARGET, profile, "tdharness")


def build_lean(targets):
    with Lock("lean"):
        r = run(["lake", "build"] + targets, cwd=LEAN)
    return r.returncode == 0, (r.stdout + r.stderr)[-6000:]


def strip_comments(src):
    # remove /- ... -/ (nested) and -- comments
    out, i, depth = [], 0, 0
    while i < len(src):
        if src.startswith("/-", i):
            depth += 1; i += 2; continue
        if src.startswith("-/", i) and depth > 0:
            depth -= 1; i += 2; continue
        if depth == 0:
            if src.startswith("--", i):
                j = src.find("\n", i)
                i = len(src) if j < 0 else j
                continue
            out.append(src[i])
        i += 1
    return "".join(out)


FORBIDDEN = re.compile(r"\bsorry\b|\badmit\b|^\s*axiom\s|native_decide|bv_decide|implemented_by|\bunsafe\s|maxHeartbeats\s+0", re.M)


def property_modules(pid):
    """the Lean modules holding the property's theorems: Toodee/Properties/<pid>.lean and any <pid><Suffix>.lean beside it"""
    d = os.path.join(LEAN, "Toodee", "Properties")
    names = sorted(f[:-5] for f in os.listdir(d) if f.endswith(".lean") and re.fullmatch(re.escape(pid) + r"[A-Za-z]*", f[:-5]))
    return [f"Toodee.Properties.{n}" for n in names]


def lean_deps(pid):
    """Toodee/*.lean files the property's theorems depend on (transitive `import Toodee.*`)."""
    seen, todo = set(), list(property_modules(pid))
    while todo:
        mod = todo.pop()
        if mod in seen:
            continue
        p = os.path.join(LEAN, *mod.split(".")) + ".lean"
        if not os.path.exists(p):
            continue
        seen.add(mod)
        for imp in re.findall(r"^import\s+(Toodee\.[A-Za-z0-9_.]+)", open(p).read(), re.M):
            todo.append(imp)
    return sorted(os.path.join(LEAN, *m.split(".")) + ".lean" for m in seen)


def hygiene(pid):
    """grep the Lean files the property depends on for forbidden constructs (comments stripped)."""
    bad = []
    for p in lean_deps(pid):
        src = strip_comments(open(p).read())
        for mm in FORBIDDEN.finditer(src):
            bad.append(f"{os.path.relpath(p, LEAN)}: {mm.group(0).strip()}")
    return bad


def property_theorems(pid):
    names = []
    for mod in property_modules(pid):
        p = os.path.join(LEAN, *mod.split(".")) + ".lean"
        src = strip_comments(open(p).read())
        names += [n for n in re.findall(r"^theorem\s+([A-Za-z0-9_.']+)", src, re.M) if n.startswith(pid + "_")]
    return names


def audit(pid):
    """#print axioms for every property theorem. Returns (obligations, discharged, problems, details)."""
    names = property_theorems(pid)
    if not names:
        return 0, 0, ["no property theorems found for " + pid], {}
    os.makedirs(BUILD, exist_ok=True)
    f = os.path.join(BUILD, f"audit_{pid}.lean")
    with open(f, "w") as fh:
        for mod in property_modules(pid):
            fh.write(f"import {mod}\n")
        for n in names:
            fh.write(f"#print axioms Toodee.{n}\n")
    with Lock("lean"):
        r = run(["lake", "env", "lean", f], cwd=LEAN)
    out = r.stdout + r.stderr
    details, problems, ok = {}, [], 0
    for n in names:
        mm = re.search(r"'Toodee\." + re.escape(n) + r"' (does not depend on any axioms|depends on axioms: \[([^\]]*)\])", out)
        if not mm:
            problems.append(f"theorem Toodee.{n}: no axiom report (does it compile?)")
            continue
        axs = [a.strip() for a in (mm.group(2) or "").split(",") if a.strip()]
        details[n] = axs
        extra = [a for a in axs if a not in ALLOWED_AXIOMS]
        if extra:
            problems.append(f"theorem Toodee.{n} depends on non-allowed axioms {extra}")
        else:
            ok += 1
    if r.returncode != 0 and not problems:
        problems.append("audit file failed: " + out[-500:])
    return len(names), ok, problems, details


# ----------------------------------------------------------------------------- running cases

def run_harness(binary, cases, tag):
    """cases: list of list-of-lines. Returns list of list-of-observations (None for lines never reached).
    A non-unwinding abort / hang inside a case yields the observation 'abort'/'hang' for the line being
    executed and skips the rest of that case."""
    os.makedirs(BUILD, exist_ok=True)
    results = [None] * len(cases)
    start = 0
    deaths = 0
    while start < len(cases):
        if deaths >= MAX_DEATHS:
            # the implementation keeps dying / hanging: enough evidence, do not spend minutes on more of the same
            break
        path = os.path.join(BUILD, f"run_{tag}_{os.getpid()}.case")
        with open(path, "w") as f:
            for c in cases[start:]:
                f.write("\n".join(c) + "\n")
        # watchdog on *progress*: the harness flushes one line per operation; if its output stops growing for STALL_S seconds
        # the operation being executed hangs (a normal operation takes micro- to milliseconds, also on a loaded machine)
        outpath = path + ".out"
        with open(outpath, "w") as outf:
            proc = subprocess.Popen([binary, path], stdout=outf, stderr=subprocess.DEVNULL)
            last_size, last_change, kind = -1, time.time(), "abort"
            while True:
                rc = proc.poll()
                if rc is not None:
                    break
                size = os.path.getsize(outpath)
                if size != last_size:
                    last_size, last_change = size, time.time()
                elif time.time() - last_change > STALL_S:
                    proc.kill(); proc.wait(); kind = "hang"
                    break
                time.sleep(0.05)
        out = open(outpath).read()
        os.unlink(outpath)
        died = (proc.returncode != 0)
        obs = out.split("\n")
        obs.pop()          # "" after the final newline, or a partial line cut off when the process died
        k = 0
        idx = start
        while idx < len(cases) and k + len(cases[idx]) <= len(obs):
            results[idx] = obs[k:k + len(cases[idx])]
            k += len(cases[idx]); idx += 1
        if idx < len(cases) and died:
            deaths += 1
            # case idx was interrupted
            part = obs[k:]
            results[idx] = part + [kind] + [None] * (len(cases[idx]) - len(part) - 1)
            idx += 1
        elif idx < len(cases):
            # harness stopped early without dying: treat as abort at that line
            part = obs[k:]
            results[idx] = part + ["abort"] + [None] * (len(cases[idx]) - len(part) - 1)
            idx += 1
        start = idx
        os.unlink(path)
    return results


def run_driver(mode, cases, robs):
    """Feed `<line> ## <R obs>` to tdmodel; returns per case list of (M, S)."""
    inp = []
    index = []
    for ci, (c, ro) in enumerate(zip(cases, robs)):
        for li, line in enumerate(c):
            o = ro[li] if ro and li < len(ro) else None
            if o is None or o in ("abort", "hang"):
                break
            inp.append(f"{line} ## {o}")
            index.append((ci, li))
    r = subprocess.run([DRIVER, mode], input="\n".join(inp) + "\n", capture_output=True, text=True)
    outs = r.stdout.split("\n")
    res = [[None] * len(c) for c in cases]
    for (ci, li), o in zip(index, outs):
        parts = o.split(" ## S ")
        m = parts[0][2:] if parts[0].startswith("M ") else parts[0]
        s = parts[1] if len(parts) > 1 else "?"
        res[ci][li] = (m, s)
    if r.returncode != 0:
        log("driver failed:", r.stderr[-2000:])
    return res


# ----------------------------------------------------------------------------- known findings

def load_known():
    p = os.path.join(VERIF, "known_findings.json")
    if not os.path.exists(p):
        return []
    return json.load(open(p)).get("findings", [])


def match_known(pid, line, robs):
    """A failing step matches a known finding when property, op and the `match` regex (on `line ## obs`) agree."""
    for k in load_known():
        if k.get("status") != "known" or k.get("property") != pid:
            continue
        if re.search(k["match"], f"{line} ## {robs}"):
            return k
    return None


# ----------------------------------------------------------------------------- the check

def write_replay(pid, mode, case, li, robs, mobs, sverdict, kind):
    os.makedirs(os.path.join(VERIF, "replays"), exist_ok=True)
    h = hashlib.sha256(("\n".join(case[:li + 1]) + mode).encode()).hexdigest()[:12]
    path = os.path.join(VERIF, "replays", f"{pid}-{h}.case")
    with open(path, "w") as f:
        f.write(f"# replay for {pid}: {kind}\n")
        f.write(f"# mode={mode}  failing line (0-based within case): {li}: {case[li]}\n")
        f.write(f"# R (implementation): {robs}\n# M (Impl-model):     {mobs}\n# S (property oracle): {sverdict}\n")
        f.write("\n".join(case[:li + 1]) + "\nend\n")
    return path


def explore(pid, tier, seed, modes, stats, budget_s=None):
    """Run the property's generator in the given modes. Returns list of problems:
    dict(kind='property'|'correspondence', mode, case, li, R, M, S)."""
    problems = []
    cases = gen.generate(pid, tier, seed)
    stats["cases"] = len(cases)
    stats["evaluations"] = 0
    stats["samples"] = [c for c in cases[:2]] + ([cases[len(cases) // 2]] if len(cases) > 4 else [])
    distinct = set()
    ops = {}
    outcomes = {}
    for mode in modes:
        ok, msg, binary = build_harness(mode)
        if not ok:
            problems.append(dict(kind="build", mode=mode, msg=msg))
            continue
        robs = run_harness(binary, cases, f"{pid}_{mode}")
        mres = run_driver(mode, cases, robs)
        for ci, c in enumerate(cases):
            corr_seen = False
            for li, line in enumerate(c):
                ro = robs[ci][li] if robs[ci] and li < len(robs[ci]) else None
                if ro is None:
                    break
                if line.startswith("case ") or line.startswith("#"):
                    continue
                stats["evaluations"] += 1
                toks = line.split(" ")
                opname = toks[1] if len(toks) > 1 else line
                ops[opname] = ops.get(opname, 0) + 1
                st = ro.split(" ", 1)[0]
                outcomes[st] = outcomes.get(st, 0) + 1
                if line != "end":
                    prev = robs[ci][li - 1] if li > 0 else ""
                    distinct.add((line, prev.split(" | ")[1] if " | " in prev else ""))
                if ro in ("abort", "hang"):
                    problems.append(dict(kind="property" if gen.abort_is_violation(pid, line) else "correspondence",
                                         mode=mode, case=c, li=li, R=ro, M="(not run)", S=f"FAIL process {ro}"))
                    break
                m, s = mres[ci][li] if mres[ci][li] else ("?", "?")
                if s.startswith("FAIL"):
                    problems.append(dict(kind="property", mode=mode, case=c, li=li, R=ro, M=m, S=s))
                    break
                if m != "?" and m != ro and not corr_seen:
                    # remember the first disagreement of the case, but keep judging the following steps (the driver
                    # re-synchronises to the implementation after every step): a later step may violate the property outright
                    problems.append(dict(kind="correspondence", mode=mode, case=c, li=li, R=ro, M=m, S=s))
                    corr_seen = True
    stats["distinct_nontrivial"] = len(distinct)
    stats["ops"] = ops
    stats["outcomes"] = outcomes
    return problems


def check(pid, tier, seed):
    t0 = time.time()
    stats = {}
    violations = []   # (replay_path, suffix)
    known_lines = []
    notes = []

    # 1. Lean: build the property's theorems + driver, hygiene, axiom audit
    if os.environ.get("TOODEE_DEV_NO_PROOFS"):      # development aid: correspondence only (never used by a registered command)
        ok, out = build_lean(["tdmodel"])
        print("DEV: proofs skipped"); 
        import types
        globals()["hygiene"] = lambda pid: []
        globals()["audit"] = lambda pid: (1, 1, [], {})
    else:
        ok, out = build_lean(property_modules(pid) + ["tdmodel"])
    lean_problems = []
    if not ok:
        lean_problems.append("lake build failed:\n" + out)
    bad = hygiene(pid)
    if bad:
        lean_problems += ["forbidden construct: " + b for b in bad]
    obligations, discharged, aproblems, axioms = (0, 0, [], {})
    if ok:
        obligations, discharged, aproblems, axioms = audit(pid)
        lean_problems += aproblems
    leanchecker = None
    if ok and tier == "thorough":
        with Lock("lean"):
            r = run(["lake", "env", "leanchecker"] + property_modules(pid), cwd=LEAN)
        leanchecker = (r.returncode == 0)
        if r.returncode != 0:
            lean_problems.append("leanchecker rejected Toodee.Properties." + pid + ": " + (r.stdout + r.stderr)[-500:])

    # 2. correspondence + property oracle on the implementation
    modes = ["debug", "release"]
    # source-derived drift signal: functions of the files this property is anchored in whose text changed since the model was
    # last reconciled.  Never an alarm by itself; it widens the quick tier to the thorough scope.
    drift = []
    try:
        pfiles = [json.loads(l) for l in open(os.path.join(VERIF, "properties.jsonl"))]
        pfiles = next(p["anchors"]["files"] for p in pfiles if p["id"] == pid)
        drift = anchors.drift_for(pfiles)
    except Exception as e:                                     # the signal is advisory
        notes.append("drift signal unavailable: %r" % (e,))
    scope = "thorough" if (drift and tier == "quick") else tier
    problems = explore(pid, scope, seed, modes, stats)

    prop_fail = [p for p in problems if p["kind"] == "property"]
    corr_fail = [p for p in problems if p["kind"] in ("correspondence", "build")]

    # 3. when a proof or the correspondence broke but no explored input violates the property: search harder
    searched = False
    if (lean_problems or corr_fail) and not prop_fail and tier == "quick":
        searched = True
        st2 = {}
        more = explore(pid, "thorough", seed + 1, modes, st2)
        prop_fail = [p for p in more if p["kind"] == "property"]
        stats["search_evaluations"] = st2.get("evaluations", 0)

    def report(p, suffix=""):
        k = match_known(pid, p["case"][p["li"]], p["R"]) if "case" in p else None
        if k:
            known_lines.append(f"KNOWN-FINDING: property={pid} {k['text']}")
            return
        path = write_replay(pid, p["mode"], p["case"], p["li"], p["R"], p["M"], p["S"],
                            "implementation violates the property oracle" if not suffix else "correspondence no longer checks")
        violations.append((path, suffix))

    seen = set()
    for p in prop_fail:
        key = (p["case"][p["li"]].split(" ")[1] if " " in p["case"][p["li"]] else p["case"][p["li"]], p["S"][:40])
        if key in seen:
            continue
        seen.add(key)
        report(p)
        if len(violations) >= 5:
            break
    if not prop_fail:
        if corr_fail:
            p = corr_fail[0]
            if p["kind"] == "build":
                os.makedirs(os.path.join(VERIF, "replays"), exist_ok=True)
                path = os.path.join(VERIF, "replays", f"{pid}-build.txt")
                open(path, "w").write("harness does not build against /repo:\n" + p["msg"])
                violations.append((path, " no-failing-input-found"))
            else:
                report(p, " no-failing-input-found")
        elif lean_problems:
            os.makedirs(os.path.join(VERIF, "replays"), exist_ok=True)
            path = os.path.join(VERIF, "replays", f"{pid}-lean.txt")
            open(path, "w").write("proof obligations that no longer check:\n" + "\n".join(lean_problems))
            violations.append((path, " no-failing-input-found"))

    wall = time.time() - t0
    ev = {
        "property_id": pid, "tier": tier, "seed": seed, "level": "proof",
        "coverage": {
            "obligations": obligations, "discharged": discharged,
            "checker_cmd": f"cd lean && lake build {' '.join(property_modules(pid))} && lake env lean <#print axioms of every {pid}_* theorem in Toodee/Properties/{pid}*.lean>"
                           + (" && lake env leanchecker " + " ".join(property_modules(pid)) if tier == "thorough" else ""),
            "trusted_base": ["Lean 4.33 kernel", "axioms: propext, Classical.choice, Quot.sound (audited per theorem)",
                             "hand transcription Rust -> Impl-model, re-validated by the correspondence run below",
                             "tdharness + tdmodel driver + check.py", "std components modelled by specification (DESIGN.md §8)"],
            "theorems": axioms,
            "leanchecker": leanchecker,
            "evaluations": stats.get("evaluations", 0),
            "distinct_nontrivial": stats.get("distinct_nontrivial", 0),
            "rule": gen.rule(pid, scope),
            "samples": stats.get("samples", []),
            "traces_validated_against_impl": stats.get("evaluations", 0),
            "cases": stats.get("cases", 0),
            "ops": stats.get("ops", {}),
            "outcomes": stats.get("outcomes", {}),
            "modes": modes,
            "searched_for_failing_input": searched,
            "drift": drift,
            "drift_modelled_by": {k: anchors.modelled_by(k) for k in drift},
            "model_map_problems": anchors.map_problems(),
            "generator_scope": scope,
            "exhaustive": gen.exhaustive(pid, tier),
            "partial": gen.partial(pid),
        },
        "assumptions": gen.assumptions(pid),
        "wall_s": round(wall, 2),
        "violations": len(violations),
    }
    os.makedirs(os.path.join(VERIF, "evidence"), exist_ok=True)
    with open(os.path.join(VERIF, "evidence", pid + ".json"), "w") as f:
        json.dump(ev, f, indent=1)
    for l in known_lines:
        print(l)
    for path, suffix in violations:
        print(f"VIOLATION property={pid} replay={path}{suffix}")
    if not violations:
        print(f"OK property={pid} tier={tier} obligations={obligations}/{discharged} evaluations={stats.get('evaluations', 0)} wall={wall:.1f}s")
    return 1 if violations else 0


def replay(pid, path):
    lines = [l for l in open(path).read().split("\n") if l and not l.startswith("# ")]
    cases = [lines]
    for mode in ["debug", "release"]:
        ok, msg, binary = build_harness(mode)
        if not ok:
            print("harness build failed:", msg); return 1
        robs = run_harness(binary, cases, "replay_" + mode)
        mres = run_driver(mode, cases, robs)
        print(f"== mode={mode}")
        for li, line in enumerate(lines):
            ro = robs[0][li] if li < len(robs[0]) else None
            ms = mres[0][li] or ("?", "?")
            flag = "" if (ms[0] in ("?", ro)) and not ms[1].startswith("FAIL") else "   <<<<"
            print(f"{line}\n    R: {ro}\n    M: {ms[0]}\n    S: {ms[1]}{flag}")
    return 0


def setup():
    ok, out = build_lean(["Toodee", "tdmodel"])
    if not ok:
        print(out); return 1
    for mode in ["debug", "release"]:
        ok, msg, _ = build_harness(mode)
        if not ok:
            print(msg); return 1
    print("setup ok")
    return 0


def main():
    a = sys.argv[1:]
    if not a:
        print(__doc__); return 2
    if a[0] == "--setup":
        return setup()
    pid = a[0]
    tier = os.environ.get("VERIF_TIER", "quick")
    if "--tier" in a:
        tier = a[a.index("--tier") + 1]
    seed = int(os.environ.get("VERIF_SEED", "1"))
    if "--replay" in a:
        return replay(pid, a[a.index("--replay") + 1])
    return check(pid, tier, seed)


if __name__ == "__main__":
    sys.exit(main())
