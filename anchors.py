#!/usr/bin/env python3
"""Source-derived drift signal (DESIGN.md §5: "drift escalation").

The Lean model is hand-written, so nothing forces it to follow an edit of /repo.  This module fingerprints every Rust
function of the crate (normalised text: comments and whitespace removed) and compares with the fingerprints recorded when the
model was last reconciled with the source (`model_anchors.json`).  A changed / new / removed function never raises an alarm by
itself; it makes the checks of the properties anchored in that file run their *thorough* generator even in the quick tier,
and is reported in the evidence.

  python3 anchors.py --update     record the fingerprints of /repo's working tree (run after reconciling the model)
  python3 anchors.py              print the functions that drifted since then
"""
import os, re, json, hashlib, sys

VERIF = os.path.dirname(os.path.abspath(__file__))
REPO = os.environ.get("TOODEE_REPO", "/repo")
STORE = os.path.join(VERIF, "model_anchors.json")
FILES = ["toodee.rs", "view.rs", "iter.rs", "ops.rs", "flattenexact.rs", "copy.rs", "sort.rs", "translate.rs", "serde.rs"]


def strip_comments(src):
    out, i, n = [], 0, len(src)
    while i < n:
        if src.startswith("//", i):
            j = src.find("\n", i)
            i = n if j < 0 else j
        elif src.startswith("/*", i):
            j = src.find("*/", i + 2)
            i = n if j < 0 else j + 2
        elif src[i] == '"':
            j = i + 1
            while j < n and src[j] != '"':
                j += 2 if src[j] == "\\" else 1
            out.append(src[i:j + 1]); i = j + 1
        else:
            out.append(src[i]); i += 1
    return "".join(out)


def functions(path):
    """yield (qualified name, normalised text) for every `fn` with a body in the file"""
    src = strip_comments(open(path).read())
    res, counts = {}, {}
    for m in re.finditer(r"\bfn\s+([A-Za-z_][A-Za-z0-9_]*)", src):
        name = m.group(1)
        k = src.find("{", m.end())
        semi = src.find(";", m.end())
        if k < 0 or (0 <= semi < k):
            continue                      # a declaration without body (trait method signature)
        depth, j = 0, k
        in_str = False
        while j < len(src):
            ch = src[j]
            if in_str:
                if ch == "\\":
                    j += 1
                elif ch == '"':
                    in_str = False
            elif ch == '"':
                in_str = True
            elif ch == "{":
                depth += 1
            elif ch == "}":
                depth -= 1
                if depth == 0:
                    break
            j += 1
        text = re.sub(r"\s+", "", src[m.start():j + 1])
        counts[name] = counts.get(name, 0) + 1
        res[f"{name}#{counts[name]}"] = hashlib.sha256(text.encode()).hexdigest()[:16]
    return res


def fingerprint():
    out = {}
    for f in FILES:
        p = os.path.join(REPO, "src", f)
        if os.path.exists(p):
            for k, v in functions(p).items():
                out[f"src/{f}::{k}"] = v
        else:
            out[f"src/{f}::<missing>"] = "missing"
    return out


def drift():
    """list of `file::fn#k` whose text changed / appeared / disappeared since the model was reconciled"""
    if not os.path.exists(STORE):
        return []
    old = json.load(open(STORE))["functions"]
    cur = fingerprint()
    changed = [k for k in cur if old.get(k) != cur[k]] + [k for k in old if k not in cur]
    return sorted(set(changed))


def drift_for(files):
    """drifted functions that live in one of the given source files (e.g. a property's anchors.files)"""
    fs = tuple(f + "::" for f in files)
    return [d for d in drift() if d.startswith(fs)]


if __name__ == "__main__":
    if "--update" in sys.argv:
        json.dump({"_comment": "fingerprints of the Rust functions the Lean model was last reconciled with (anchors.py --update)",
                   "functions": fingerprint()}, open(STORE, "w"), indent=0, sort_keys=True)
        print("recorded", len(fingerprint()), "functions")
    else:
        d = drift()
        print("\n".join(d) if d else "no drift")
