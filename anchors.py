#!/usr/bin/env python3
"""Source-derived drift signal (DESIGN.md §5: "drift escalation").

The Lean model is hand-written, so nothing forces it to follow an edit of /repo.  This module fingerprints every Rust
function of the crate (normalised text: comments and whitespace removed) and compares with the fingerprints recorded when the
model was last reconciled with the source (`model_anchors.json`).  A changed / new / removed function never raises an alarm by
itself; it makes the checks of the properties anchored in that file run their *thorough* generator even in the quick tier,
and is reported in the evidence.

  python3 anchors.py --update     record the fingerprints of /repo's working tree (run after reconciling the model)
  python3 anchors.py              print the functions that drifted since then
"""
import os, re, json, hashlib, sys

VERIF = os.path.dirname(os.path.abspath(__file__))
REPO = os.environ.get("TOODEE_REPO", "/repo")
STORE = os.path.join(VERIF, "model_anchors.json")
FILES = ["toodee.rs", "view.rs", "iter.rs", "ops.rs", "flattenexact.rs", "copy.rs", "sort.rs", "translate.rs", "serde.rs"]


def strip_comments(src):
    out, i, n = [], 0, len(src)
    while i < n:
        if src.startswith("//", i):
            j = src.find("\n", i)
            i = n if j < 0 else j
        elif src.startswith("/*", i):
            j = src.find("*/", i + 2)
            i = n if j < 0 else j + 2
        elif src[i] == '"':
            j = i + 1
            while j < n and src[j] != '"':
                j += 2 if src[j] == "\\" else 1
            out.append(src[i:j + 1]); i = j + 1
        else:
            out.append(src[i]); i += 1
    return "".join(out)


def functions(path):
    """yield (qualified name, normalised text) for every `fn` with a body in the file"""
    src = strip_comments(open(path).read())
    res, counts = {}, {}
    for m in re.finditer(r"\bfn\s+([A-Za-z_][A-Za-z0-9_]*)", src):
        name = m.group(1)
        k = src.find("{", m.end())
        semi = src.find(";", m.end())
        if k < 0 or (0 <= semi < k):
            continue                      # a declaration without body (trait method signature)
        depth, j = 0, k
        in_str = False
        while j < len(src):
            ch = src[j]
            if in_str:
                if ch == "\\":
                    j += 1
                elif ch == '"':
                    in_str = False
            elif ch == '"':
                in_str = True
            elif ch == "{":
                depth += 1
            elif ch == "}":
                depth -= 1
                if depth == 0:
                    break
            j += 1
        text = re.sub(r"\s+", "", src[m.start():j + 1])
        counts[name] = counts.get(name, 0) + 1
        res[f"{name}#{counts[name]}"] = hashlib.sha256(text.encode()).hexdigest()[:16]
    return res


def fingerprint():
    out = {}
    for f in FILES:
        p = os.path.join(REPO, "src", f)
        if os.path.exists(p):
            for k, v in functions(p).items():
                out[f"src/{f}::{k}"] = v
        else:
            out[f"src/{f}::<missing>"] = "missing"
    return out


def drift():
    """list of `file::fn#k` whose text changed / appeared / disappeared since the model was reconciled"""
    if not os.path.exists(STORE):
        return []
    old = json.load(open(STORE))["functions"]
    cur = fingerprint()
    changed = [k for k in cur if old.get(k) != cur[k]] + [k for k in old if k not in cur]
    return sorted(set(changed))


MAP = os.path.join(VERIF, "modelmap.json")


def lean_defs():
    """fully qualified names of the definitions of the Impl-model (Toodee/Impl, Toodee/Base)"""
    names = set()
    for sub in ("Impl", "Base"):
        d = os.path.join(VERIF, "lean", "Toodee", sub)
        for f in sorted(os.listdir(d)):
            if not f.endswith(".lean"):
                continue
            ns = []
            for line in open(os.path.join(d, f)):
                m = re.match(r"\s*namespace\s+([A-Za-z0-9_.]+)", line)
                if m:
                    ns.append(m.group(1)); continue
                m = re.match(r"\s*end\s+([A-Za-z0-9_.]+)\s*$", line)
                if m and ns and ns[-1] == m.group(1):
                    ns.pop(); continue
                m = re.match(r"\s*(?:private\s+|protected\s+)?(?:def|abbrev|structure|inductive)\s+([A-Za-z0-9_.']+)", line)
                if m:
                    names.add(".".join(ns + [m.group(1)]))
    return names


def map_problems():
    """consistency of modelmap.json (which Rust function is modelled by which Lean definition) with the two trees:
    every current Rust function has an entry, no entry is orphaned, every Lean name exists"""
    if not os.path.exists(MAP):
        return ["modelmap.json missing"]
    fs = json.load(open(MAP))["functions"]
    cur = fingerprint()
    defs = lean_defs()
    out = [f"unmapped Rust function {k}" for k in cur if k not in fs]
    out += [f"map entry without Rust function {k}" for k in fs if k not in cur]
    for k, e in fs.items():
        for n in e.get("lean", []):
            if n not in defs:
                out.append(f"{k}: Lean definition {n} not found")
        if e.get("status") == "modelled" and not e.get("lean"):
            out.append(f"{k}: status modelled but no Lean definition listed")
    return out


def modelled_by(key):
    """Lean definitions that model the Rust function `file::fn#k` (for the drift report)"""
    try:
        return json.load(open(MAP))["functions"].get(key, {}).get("lean", [])
    except Exception:
        return []


def drift_for(files):
    """drifted functions that live in one of the given source files (e.g. a property's anchors.files)"""
    fs = tuple(f + "::" for f in files)
    return [d for d in drift() if d.startswith(fs)]


if __name__ == "__main__":
    if "--update" in sys.argv:
        json.dump({"_comment": "fingerprints of the Rust functions the Lean model was last reconciled with (anchors.py --update)",
                   "functions": fingerprint()}, open(STORE, "w"), indent=0, sort_keys=True)
        print("recorded", len(fingerprint()), "functions")
    elif "--map-check" in sys.argv:
        pr = map_problems()
        print("\n".join(pr) if pr else "modelmap.json consistent with /repo/src and lean/Toodee/{Impl,Base}")
        sys.exit(1 if pr else 0)
    elif "--map-table" in sys.argv:
        fs = json.load(open(MAP))["functions"]
        print("| Rust function (file, lines) | status | Lean definition(s) |")
        print("|---|---|---|")
        for k in sorted(fs, key=lambda k: (k.split("::")[0], int(fs[k]["lines"].split("-")[0]))):
            e = fs[k]
            lean = ", ".join("`" + n.replace("Toodee.", "") + "`" for n in e["lean"]) or "–"
            note = "" if e["status"] == "modelled" else " — " + e["note"].split(";")[0][:110]
            print(f"| `{k.split('::')[0]}:{e['lines']}` {e['rust']} | {e['status']}{note} | {lean} |")
    else:
        d = drift()
        print("\n".join(f"{k}  (modelled by {', '.join(modelled_by(k)) or '-'})" for k in d) if d else "no drift")
