#!/usr/bin/env python3
"""Mutation test of the *model against its theorems* (DESIGN.md §10, "how tightly do the theorems pin the model?").

The Lean Impl-model is a hand transcription; the property theorems are only worth something if they would stop being provable
when the model computes something else.  This script makes small syntactic changes to the Impl-model (one at a time, in a scratch
copy of /verif/lean under /tmp that is removed afterwards), rebuilds the library, and records for each mutant whether some proof
broke ("killed": the theorems notice) or everything still builds ("survived": either the change is semantically neutral under the
invariants, or no theorem constrains that line — each survivor is listed for review).

  python3 selftest/model_mutation.py [--per-file N] [--jobs J] [--seed S] [--files Iter.lean,Ops.lean]

Output: selftest/model_mutation_report.json  (mutants, outcome, first failing module).  Never touches /verif/lean or /repo.
"""
import os, re, sys, json, random, shutil, subprocess, argparse, tempfile, time
from concurrent.futures import ThreadPoolExecutor

VERIF = os.path.dirname(os.path.dirname(os.path.abspath(__file__)))
LEAN = os.path.join(VERIF, "lean")
IMPL = ["Base/Core.lean", "Base/Buf.lean", "Base/Mem.lean", "Impl/TooDee.lean", "Impl/View.lean", "Impl/Iter.lean", "Impl/Flatten.lean",
        "Impl/Ops.lean", "Impl/Copy.lean", "Impl/Sort.lean", "Impl/Translate.lean", "Impl/Insert.lean", "Impl/Remove.lean",
        "Impl/Serde.lean", "Impl/Recv.lean"]

# (name, regex, replacement) — applied to one match at a time, outside comments
OPS = [
    ("uadd->usub", r"\buadd m\b", "usub m"),
    ("usub->uadd", r"\busub m\b", "uadd m"),
    ("umul->uadd", r"\bumul m\b", "uadd m"),
    ("lt->le", r"(?<=[\w\)\]]) < (?=[\w\(])", " ≤ "),
    ("le->lt", r"(?<=[\w\)\]]) ≤ (?=[\w\(])", " < "),
    ("plus1->plus0", r" \+ 1\b", " + 0"),
    ("minus1->minus0", r" - 1\b", " - 0"),
    ("cols->rows", r"\.numCols\b", ".numRows"),
    ("rows->cols", r"\.numRows\b", ".numCols"),
    ("panic->ub", r"throw \.panic", "throw .ub"),
    ("ub->panic", r"throw \.ub", "throw .panic"),
    ("take->drop", r"\.take\b", ".drop"),
    ("drop->take", r"\.drop\b", ".take"),
    ("skip->cols", r"\bit\.skip\b", "it.cols"),
    ("stride->cols", r"\bv\.stride\b", "v.numCols"),
    ("and->or", r" ∧ ", " ∨ "),
    ("not-removed", r"if ¬ ", "if "),
]


def comment_spans(src):
    spans, i, n = [], 0, len(src)
    while i < n:
        if src.startswith("--", i):
            j = src.find("\n", i); j = n if j < 0 else j
            spans.append((i, j)); i = j
        elif src.startswith("/-", i):
            depth, j = 1, i + 2
            while j < n and depth:
                if src.startswith("/-", j): depth += 1; j += 2
                elif src.startswith("-/", j): depth -= 1; j += 2
                else: j += 1
            spans.append((i, j)); i = j
        else:
            i += 1
    return spans


def mutants_of(path):
    src = open(path).read()
    spans = comment_spans(src)
    def in_comment(p):
        return any(a <= p < b for a, b in spans)
    out = []
    for name, rx, rep in OPS:
        for mm in re.finditer(rx, src):
            if in_comment(mm.start()):
                continue
            line = src.count("\n", 0, mm.start()) + 1
            # skip theorem statements / lemmas living in Base files: mutate definitions only
            ls = src.rfind("\n", 0, mm.start()) + 1
            out.append(dict(file=os.path.relpath(path, os.path.join(LEAN, "Toodee")), op=name, line=line, start=mm.start(), end=mm.end(), rep=rep,
                            text=src[ls:src.find("\n", mm.start())].strip()))
    return out


def in_theorem(path, pos):
    """True when the position lies inside a `theorem`/`example` (we mutate the model, not lemma statements)."""
    src = open(path).read()
    heads = [(m.start(), m.group(1)) for m in re.finditer(r"^(theorem|example|def|structure|inductive|abbrev|instance)\b", src, re.M)]
    kind = None
    for s, k in heads:
        if s <= pos:
            kind = k
    return kind in ("theorem", "example")


def run_mutant(mu, workdir):
    path = os.path.join(workdir, "Toodee", mu["file"])
    src = open(path).read()
    new = src[:mu["start"]] + mu["rep"] + src[mu["end"]:]
    open(path, "w").write(new)
    t0 = time.time()
    try:
        r = subprocess.run(["lake", "build", "Toodee"], cwd=workdir, capture_output=True, text=True, timeout=1800)
        out = r.stdout + r.stderr
        failed = re.findall(r"^✖ \[\d+/\d+\] Building (\S+)", out, re.M)
        res = dict(mu, outcome="survived" if r.returncode == 0 else "killed", failing=failed[:6], secs=round(time.time() - t0, 1))
        if r.returncode != 0 and not failed:
            res["outcome"] = "build-error"; res["tail"] = out[-400:]
        # a mutant that no longer type-checks *in the model file itself* is not a semantic mutant
        if failed and failed[0].replace("Toodee.", "").replace(".", "/") + ".lean" == mu["file"]:
            res["outcome"] = "ill-typed"
    except subprocess.TimeoutExpired:
        res = dict(mu, outcome="timeout")
    finally:
        open(path, "w").write(src)
    for k in ("start", "end"):
        res.pop(k, None)
    return res


def main():
    ap = argparse.ArgumentParser()
    ap.add_argument("--per-file", type=int, default=6)
    ap.add_argument("--jobs", type=int, default=4)
    ap.add_argument("--seed", type=int, default=1)
    ap.add_argument("--files", default="")
    a = ap.parse_args()
    rng = random.Random(a.seed)
    files = [f for f in IMPL if not a.files or os.path.basename(f) in a.files.split(",")]
    chosen = []
    for f in files:
        p = os.path.join(LEAN, "Toodee", f)
        ms = [m for m in mutants_of(p) if not in_theorem(p, m["start"])]
        rng.shuffle(ms)
        # at most one mutant per source line, spread over operators
        seen, pick = set(), []
        for m in ms:
            if m["line"] in seen:
                continue
            seen.add(m["line"]); pick.append(m)
            if len(pick) >= a.per_file:
                break
        chosen += pick
    print(f"{len(chosen)} mutants over {len(files)} files, {a.jobs} parallel scratch copies", flush=True)
    root = tempfile.mkdtemp(prefix="modelmut_")
    results = []
    try:
        works = []
        for j in range(a.jobs):
            w = os.path.join(root, f"w{j}")
            shutil.copytree(LEAN, w, symlinks=True, ignore=shutil.ignore_patterns("old"))
            works.append(w)
        buckets = [chosen[j::a.jobs] for j in range(a.jobs)]
        def worker(j):
            out = []
            for mu in buckets[j]:
                r = run_mutant(mu, works[j])
                print(f"  {r['outcome']:10s} {r['file']}:{r['line']} {r['op']:14s} {r.get('failing', [''])[0] if r.get('failing') else ''}  | {r['text'][:90]}", flush=True)
                out.append(r)
            return out
        with ThreadPoolExecutor(a.jobs) as ex:
            for part in ex.map(worker, range(a.jobs)):
                results += part
    finally:
        shutil.rmtree(root, ignore_errors=True)
    summary = {}
    for r in results:
        summary[r["outcome"]] = summary.get(r["outcome"], 0) + 1
    # merge with earlier runs (other seeds): the report accumulates distinct mutants
    rp = os.path.join(VERIF, "selftest", "model_mutation_report.json")
    seeds = [a.seed]
    if os.path.exists(rp):
        old = json.load(open(rp))
        have = {(r["file"], r["line"], r["op"]) for r in results}
        results += [r for r in old.get("mutants", []) if (r["file"], r["line"], r["op"]) not in have]
        seeds = sorted(set(old.get("seeds", [old.get("seed")]) + seeds))
        summary = {}
        for r in results:
            summary[r["outcome"]] = summary.get(r["outcome"], 0) + 1
    rep = dict(seeds=seeds, per_file=a.per_file, summary=summary, mutants=sorted(results, key=lambda r: (r["file"], r["line"])))
    json.dump(rep, open(rp, "w"), indent=1)
    print("summary:", summary)
    for r in results:
        if r["outcome"] == "survived":
            print("SURVIVED", r["file"], r["line"], r["op"], "|", r["text"])


if __name__ == "__main__":
    main()
