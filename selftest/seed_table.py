#!/usr/bin/env python3
"""Regenerates the table of DESIGN.md §10 from seeded/*/meta.json (between the markers)."""
import json, glob, os, re
VERIF = os.path.dirname(os.path.dirname(os.path.abspath(__file__)))
rows = []
for f in sorted(glob.glob(os.path.join(VERIF, "seeded", "*", "meta.json"))):
    m = json.load(open(f))
    conf = m["confirmed"]
    ok = conf["suite_passes_with_patch"] and conf["demo_fails_with_patch"] and conf["demo_passes_without_patch"]
    kinds = []
    for pid in m["caught_by"]:
        ls = m["checks"][pid]["lines"]
        kinds.append(pid + ("" if any("no-failing-input-found" not in l and l.startswith("VIOLATION") for l in ls) else " (no-failing-input-found)"))
    ran = sorted(m["checks"])
    rows.append(f"| {m['seed']} | {m['property']} | {(m.get('summary') or '').replace('|', '/')} | {(m.get('needs') or '').replace('|', '/')[:160]} | "
                f"{'yes' if ok else 'NO'} | {', '.join(kinds) or '**none**'} | {', '.join(p for p in ran if p not in m['caught_by']) or '-'} |")
table = ("| seed | target | change | needs | confirmed | caught by (quick checks) | ran, not caught by |\n|---|---|---|---|---|---|---|\n" + "\n".join(rows))
p = os.path.join(VERIF, "DESIGN.md")
s = open(p).read()
if "<!-- SEEDTABLE -->" in s:
    s = re.sub(r"<!-- SEEDTABLE -->.*?<!-- /SEEDTABLE -->", "<!-- SEEDTABLE -->\n" + table + "\n<!-- /SEEDTABLE -->", s, flags=re.S)
else:
    s = s.replace("(table generated below by selftest/seed_table.py)", "<!-- SEEDTABLE -->\n" + table + "\n<!-- /SEEDTABLE -->")
open(p, "w").write(s)
print(table)
