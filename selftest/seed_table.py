#!/usr/bin/env python3
"""Regenerates the table of DESIGN.md §10 from seeded/*/meta.json (between the markers)."""
import json, glob, os, re
VERIF = os.path.dirname(os.path.dirname(os.path.abspath(__file__)))
rows = []
for f in sorted(glob.glob(os.path.join(VERIF, "seeded", "*", "meta.json"))):
    m = json.load(open(f))
    conf = m["confirmed"]
    ok = conf["suite_passes_with_patch"] and conf["demo_fails_with_patch"] and conf["demo_passes_without_patch"]
    kinds = []
    for pid in m["caught_by"]:
        ls = m["checks"][pid]["lines"]
        kinds.append(pid + ("" if any("no-failing-input-found" not in l and l.startswith("VIOLATION") for l in ls) else " (no-failing-input-found)"))
    ran = sorted(m["checks"])
    rows.append(f"| {m['seed']} | {m['property']} | {(m.get('summary') or '').replace('|', '/')} | {(m.get('needs') or '').replace('|', '/')[:160]} | "
                f"{'yes' if ok else 'NO'} | {', '.join(kinds) or '**none**'} | {', '.join(p for p in ran if p not in m['caught_by']) or '-'} |")
table = ("| seed | target | change | needs | confirmed | caught by (quick checks) | ran, not caught by |\n|---|---|---|---|---|---|---|\n" + "\n".join(rows))
p = os.path.join(VERIF, "DESIGN.md")
s = open(p).read()
if "<!-- SEEDTABLE -->" in s:
    s = re.sub(r"<!-- SEEDTABLE -->.*?<!-- /SEEDTABLE -->", "<!-- SEEDTABLE -->\n" + table + "\n<!-- /SEEDTABLE -->", s, flags=re.S)
else:
    s = s.replace("(table generated below by selftest/seed_table.py)", "<!-- SEEDTABLE -->\n" + table + "\n<!-- /SEEDTABLE -->")
# the false-alarm table (behaviour-preserving refactorings)
hrows = []
for f in sorted(glob.glob(os.path.join(VERIF, "seeded", "harmless", "*", "meta.json"))):
    m = json.load(open(f))
    n = len(m.get("checks", {})) or 20
    files = m["files"] if isinstance(m["files"], list) else [m["files"]]
    alarms = m.get("alarms") or []
    hrows.append(f"| {m['id']} | {', '.join(files)} | {(m.get('summary') or '').replace('|', '/')[:260]} | {'yes' if m.get('suite_passes_with_patch') else 'NO'} | "
                 f"{'none (' + str(n) + '/' + str(n) + ' checks quiet)' if not alarms else '**' + ', '.join(map(str, alarms)) + '**'} |")
if "<!-- HARMLESS -->" in s:
    ht = "| id | files | refactoring | suite passes | alarms |\n|---|---|---|---|---|\n" + "\n".join(hrows)
    s = re.sub(r"<!-- HARMLESS -->.*?<!-- /HARMLESS -->", lambda _: "<!-- HARMLESS -->\n" + ht + "\n<!-- /HARMLESS -->", s, flags=re.S)
# Appendix B: the model map (which Rust function is modelled by which Lean definition), from modelmap.json
import subprocess
mt = subprocess.run(["python3", os.path.join(VERIF, "anchors.py"), "--map-table"], capture_output=True, text=True).stdout.strip()
if "<!-- MODELMAP -->" in s and mt:
    s = re.sub(r"<!-- MODELMAP -->.*?<!-- /MODELMAP -->", lambda _: "<!-- MODELMAP -->\n" + mt + "\n<!-- /MODELMAP -->", s, flags=re.S)
# model mutation summary
rp = os.path.join(VERIF, "selftest", "model_mutation_report.json")
if "<!-- MODELMUT -->" in s and os.path.exists(rp):
    rep = json.load(open(rp))
    lines = [f"{len(rep['mutants'])} mutants (seeds {rep.get('seeds')}): " + ", ".join(f"{k} {v}" for k, v in sorted(rep["summary"].items())), "",
             "| file | killed | survived | ill-typed |", "|---|---|---|---|"]
    files = sorted({r["file"] for r in rep["mutants"]})
    for f in files:
        rs = [r for r in rep["mutants"] if r["file"] == f]
        lines.append(f"| {f} | {sum(r['outcome'] == 'killed' for r in rs)} | {sum(r['outcome'] == 'survived' for r in rs)} | {sum(r['outcome'] == 'ill-typed' for r in rs)} |")
    lines += ["", "Survivors (the full list with the first proof each killed mutant breaks is in `selftest/model_mutation_report.json`):", "",
              "| file:line | operator | mutated line |", "|---|---|---|"]
    for r in rep["mutants"]:
        if r["outcome"] == "survived":
            lines.append(f"| {r['file']}:{r['line']} | {r['op']} | `{r['text'][:110].replace('|', '/')}` |")
    s = re.sub(r"<!-- MODELMUT -->.*?<!-- /MODELMUT -->", lambda _: "<!-- MODELMUT -->\n" + "\n".join(lines) + "\n<!-- /MODELMUT -->", s, flags=re.S)
open(p, "w").write(s)
print(table)
