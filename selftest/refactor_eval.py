#!/usr/bin/env python3
"""Evaluate a behaviour-preserving refactoring written by an independent sub-agent: the checks must stay quiet.

  python3 selftest/refactor_eval.py <worktree with seed/{patch.diff,meta.json}> <id>

Confirms the crate's own suite passes with the patch, applies it to the crate ($TOODEE_REPO or /repo), runs every registered
quick check, restores the crate, and stores patch + results under /verif/seeded/harmless/<id>/."""
import sys, os, subprocess, json, shutil, time
VERIF = os.path.dirname(os.path.dirname(os.path.abspath(__file__)))
REPO = os.environ.get("TOODEE_REPO", "/repo")


def sh(cmd, cwd=None, env=None):
    e = dict(os.environ); e.update(env or {})
    r = subprocess.run(cmd, shell=True, cwd=cwd, env=e, capture_output=True, text=True)
    return r.returncode, r.stdout + r.stderr


def main():
    wt, rid = sys.argv[1], sys.argv[2]
    patch = os.path.join(wt, "seed", "patch.diff")
    meta = json.load(open(os.path.join(wt, "seed", "meta.json")))
    env = {"CARGO_TARGET_DIR": os.path.join(wt, "target"), "CARGO_NET_OFFLINE": "true"}
    rc, out = sh("(cargo test --offline --lib 2>&1; cargo test --offline --doc 2>&1) | grep -E '^test result'", cwd=wt, env=env)
    suite_ok = out.count("test result: ok") == 2 and "134 passed" in out
    rc, out = sh(f"git -C {REPO} apply {patch}")
    if rc != 0:
        print("patch does not apply:", out); return 2
    results = {}
    try:
        man = json.load(open(os.path.join(VERIF, "MANIFEST.json")))
        for c in man["checks"]:
            pid = c["property_id"]
            t0 = time.time()
            rc, out = sh(c["quick_cmd"], cwd=VERIF)
            lines = [l for l in out.split("\n") if l.startswith(("VIOLATION", "OK ", "KNOWN-FINDING"))]
            results[pid] = {"exit": rc, "lines": lines, "wall_s": round(time.time() - t0, 1)}
            if rc != 0:
                print(f"   {pid}: exit={rc} {lines[:2]}")
                for l in lines:
                    if "replay=" in l:
                        rp = l.split("replay=")[1].split(" ")[0]
                        if os.path.exists(rp):
                            os.makedirs(os.path.join(VERIF, "seeded", "harmless", rid), exist_ok=True)
                            shutil.copy(rp, os.path.join(VERIF, "seeded", "harmless", rid, "replay_" + os.path.basename(rp)))
    finally:
        sh(f"git -C {REPO} apply -R {patch}")
    dst = os.path.join(VERIF, "seeded", "harmless", rid)
    os.makedirs(dst, exist_ok=True)
    shutil.copy(patch, os.path.join(dst, "patch.diff"))
    alarms = sorted(p for p, r in results.items() if r["exit"] != 0)
    json.dump({"id": rid, "kind": "behaviour-preserving refactoring (independent sub-agent)", "summary": meta.get("summary"),
               "files": meta.get("files"), "argument": meta.get("argument"), "suite_passes_with_patch": suite_ok,
               "checks": results, "alarms": alarms}, open(os.path.join(dst, "meta.json"), "w"), indent=1)
    print(f"[{rid}] suite_ok={suite_ok} alarms={alarms}")
    return 0


if __name__ == "__main__":
    sys.exit(main())
