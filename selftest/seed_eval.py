#!/usr/bin/env python3
"""Evaluate a seeded change produced by an independent sub-agent.

  python3 selftest/seed_eval.py <worktree dir with seed/{patch.diff,demo.rs,meta.json}> <seed id> [--checks C01,C02,...]

1. confirms in the scratch worktree that with the patch the crate's own test-suite passes and the demonstration fails,
   and that without the patch the demonstration passes;
2. applies the patch to /repo, runs the registered quick checks, restores /repo;
3. stores patch, demo, meta (with what was run and which checks caught it) under /verif/seeded/<seed id>/.
"""
import sys, os, subprocess, json, shutil, time

VERIF = os.path.dirname(os.path.dirname(os.path.abspath(__file__)))
REPO = os.environ.get("TOODEE_REPO", "/repo")     # a scratch copy when set; the checks then build against it too


def sh(cmd, cwd=None, env=None, timeout=1800):
    e = dict(os.environ)
    if env:
        e.update(env)
    r = subprocess.run(cmd, shell=True, cwd=cwd, env=e, capture_output=True, text=True, timeout=timeout)
    return r.returncode, r.stdout + r.stderr


def main():
    wt, sid = sys.argv[1], sys.argv[2]
    checks = None
    if "--checks" in sys.argv:
        checks = sys.argv[sys.argv.index("--checks") + 1].split(",")
    seed = os.path.join(wt, "seed")
    meta = json.load(open(os.path.join(seed, "meta.json")))
    patch = os.path.join(seed, "patch.diff")
    env = {"CARGO_TARGET_DIR": os.path.join(wt, "target"), "CARGO_NET_OFFLINE": "true"}
    prof = meta.get("profile", "both")
    rel = " --release" if prof == "release" else ""
    log = {}
    # --- 1. confirm in the scratch worktree
    sh("git checkout -- . && git clean -fdq tests", cwd=wt)
    rc, out = sh(f"git apply {patch}", cwd=wt)
    if rc != 0:
        print("patch does not apply to the worktree:", out); return 2
    os.makedirs(os.path.join(wt, "tests"), exist_ok=True)
    shutil.copy(os.path.join(seed, "demo.rs"), os.path.join(wt, "tests", "demo.rs"))
    rc, out = sh("(cargo test --offline --lib 2>&1; cargo test --offline --doc 2>&1) | grep -E '^test result' ", cwd=wt, env=env)
    suite_ok = out.count("test result: ok") == 2 and "FAILED" not in out and "134 passed" in out
    log["suite_with_patch"] = out.strip().split("\n")
    rc_demo_patched, out = sh(f"cargo test --offline{rel} --test demo 2>&1 | tail -15", cwd=wt, env=env)
    demo_fails_with_patch = ("test result: FAILED" in out) or ("error: test failed" in out) or ("SIG" in out) or ("abort" in out.lower())
    log["demo_with_patch"] = out.strip().split("\n")[-6:]
    sh(f"git apply -R {patch}", cwd=wt)
    rc, out = sh(f"cargo test --offline{rel} --test demo 2>&1 | tail -15", cwd=wt, env=env)
    demo_passes_without = "test result: ok" in out and "FAILED" not in out
    log["demo_without_patch"] = out.strip().split("\n")[-4:]
    sh(f"git apply {patch}", cwd=wt)
    print(f"[{sid}] suite passes with patch: {suite_ok}; demo fails with patch: {demo_fails_with_patch}; demo passes without: {demo_passes_without}")
    confirmed = suite_ok and demo_fails_with_patch and demo_passes_without
    # --- 2. run the registered checks against /repo with the patch applied
    results = {}
    if confirmed:
        rc, out = sh(f"git -C {REPO} status --porcelain --untracked-files=no") if os.path.isdir(os.path.join(REPO, ".git")) else (0, "")
        if out.strip():
            print("/repo is not clean; aborting", out); return 2
        rc, out = sh(f"git -C {REPO} apply {patch}")
        if rc != 0:
            print("patch does not apply to /repo:", out); return 2
        try:
            man = json.load(open(os.path.join(VERIF, "MANIFEST.json")))
            for c in man["checks"]:
                pid = c["property_id"]
                if checks and pid not in checks:
                    continue
                t0 = time.time()
                rc, out = sh(c["quick_cmd"], cwd=VERIF)
                lines = [l for l in out.split("\n") if l.startswith(("VIOLATION", "OK ", "KNOWN-FINDING"))]
                results[pid] = {"exit": rc, "lines": lines, "wall_s": round(time.time() - t0, 1)}
                print(f"   {pid}: exit={rc} {lines[:2]}")
                # keep the replay of the targeted property
                if rc != 0 and pid == meta["property"]:
                    for l in lines:
                        if "replay=" in l:
                            rp = l.split("replay=")[1].split(" ")[0]
                            if os.path.exists(rp):
                                os.makedirs(os.path.join(VERIF, "seeded", sid), exist_ok=True)
                                shutil.copy(rp, os.path.join(VERIF, "seeded", sid, "replay_" + os.path.basename(rp)))
        finally:
            sh(f"git -C {REPO} apply -R {patch}")
    # --- 3. store
    dst = os.path.join(VERIF, "seeded", sid)
    os.makedirs(dst, exist_ok=True)
    shutil.copy(patch, os.path.join(dst, "patch.diff"))
    shutil.copy(os.path.join(seed, "demo.rs"), os.path.join(dst, "demo.rs"))
    caught_by = sorted(p for p, r in results.items() if r["exit"] != 0)
    meta_out = {
        "seed": sid, "property": meta["property"], "summary": meta.get("summary"), "needs": meta.get("needs"),
        "files": meta.get("files"), "profile": prof, "author": "independent sub-agent given only the property text and a scratch worktree",
        "confirmed": {"suite_passes_with_patch": suite_ok, "demo_fails_with_patch": demo_fails_with_patch, "demo_passes_without_patch": demo_passes_without,
                      "log": log},
        "ran": ["cargo test --offline --lib; cargo test --offline --doc (patched worktree; 134 unit tests + doc-tests)", f"cargo test --offline{rel} --test demo (patched / unpatched worktree)",
                "git -C /repo apply patch.diff; <quick_cmd of each registered check>; git -C /repo checkout -- ."],
        "checks": results, "caught_by": caught_by, "caught_by_target_check": meta["property"] in caught_by,
    }
    json.dump(meta_out, open(os.path.join(dst, "meta.json"), "w"), indent=1)
    print(f"[{sid}] confirmed={confirmed} caught_by={caught_by}")
    return 0


if __name__ == "__main__":
    sys.exit(main())
