#!/usr/bin/env python3
"""Re-run the false-alarm test on the stored behaviour-preserving refactorings (seeded/harmless/<id>/patch.diff): apply each to the
crate ($TOODEE_REPO or /repo), run every registered quick check, restore.  Exit 1 if any check raises an alarm."""
import os, sys, json, glob, subprocess
VERIF = os.path.dirname(os.path.dirname(os.path.abspath(__file__)))
REPO = os.environ.get("TOODEE_REPO", "/repo")
alarms = []
man = json.load(open(os.path.join(VERIF, "MANIFEST.json")))
for d in sorted(glob.glob(os.path.join(VERIF, "seeded", "harmless", "*"))):
    patch = os.path.join(d, "patch.diff")
    if not os.path.exists(patch):
        continue
    only = os.environ.get("REFACTOR_ONLY")          # e.g. "R3,R4": a subset (to spread the re-check over parallel runs)
    if only and os.path.basename(d) not in only.split(","):
        continue
    if subprocess.run(f"git -C {REPO} apply {patch}", shell=True).returncode != 0:
        print(os.path.basename(d), "patch does not apply"); alarms.append((os.path.basename(d), "apply")); continue
    try:
        row = []
        for c in man["checks"]:
            r = subprocess.run(c["quick_cmd"], shell=True, cwd=VERIF, capture_output=True, text=True)
            if r.returncode != 0:
                row.append(c["property_id"]); alarms.append((os.path.basename(d), c["property_id"]))
                print("   ", [l for l in r.stdout.split("\n") if l.startswith("VIOLATION")][:2], flush=True)
        print(os.path.basename(d), "alarms:", row or "none", flush=True)
    finally:
        subprocess.run(f"git -C {REPO} apply -R {patch}", shell=True)
print("alarms:", alarms)
sys.exit(1 if alarms else 0)
