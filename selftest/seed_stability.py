#!/usr/bin/env python3
"""For every stored seeded change: apply it to /repo, run the target property's quick check under several VERIF_SEEDs,
restore /repo.  Prints a table; exit 1 if any (seed change, VERIF_SEED) pair is missed."""
import json, glob, os, subprocess, sys
VERIF = os.path.dirname(os.path.dirname(os.path.abspath(__file__)))
REPO = os.environ.get("TOODEE_REPO", "/repo")     # a scratch copy when set; the checks then build against it too
seeds = [int(x) for x in (sys.argv[1] if len(sys.argv) > 1 else "2,3,4").split(",")]
missed = []
for f in sorted(glob.glob(os.path.join(VERIF, "seeded", "*", "meta.json"))):
    m = json.load(open(f))
    d = os.path.dirname(f)
    pid = m["property"]
    if os.path.isdir(os.path.join(REPO, ".git")) and subprocess.run(f"git -C {REPO} status --porcelain --untracked-files=no", shell=True, capture_output=True, text=True).stdout.strip():
        print(REPO, "not clean"); sys.exit(2)
    if subprocess.run(f"git -C {REPO} apply {d}/patch.diff", shell=True).returncode != 0:
        print(m["seed"], "patch does not apply"); continue
    try:
        row = []
        for s in seeds:
            r = subprocess.run(f"python3 check.py {pid} --tier quick", shell=True, cwd=VERIF, capture_output=True, text=True,
                               env=dict(os.environ, VERIF_SEED=str(s)))
            nf = "no-failing-input-found" in r.stdout
            row.append(("caught" + ("(nfi)" if nf else "")) if r.returncode != 0 else "MISSED")
            if r.returncode == 0:
                missed.append((m["seed"], s))
        print(m["seed"], pid, row, flush=True)
    finally:
        subprocess.run(f"git -C {REPO} apply -R {d}/patch.diff", shell=True)
print("missed:", missed)
sys.exit(1 if missed else 0)
