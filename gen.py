"""Case generators for the correspondence check (DESIGN.md §5.5).

Every generator returns a list of cases; a case is a list of protocol lines starting with `case <id> elem=<kind>`
and ending with `end`.  All random choices derive from one `random.Random(seed)`.
"""
import random, itertools

U64 = 2**64 - 1
HUGE = [2**32, 2**63, U64]


def fl(l):
    return ",".join(str(x) for x in l) if l else "-"


class Builder:
    def __init__(self, pid):
        self.pid = pid
        self.cases = []
        self.n = 0

    def case(self, elem, lines):
        self.n += 1
        self.cases.append([f"case {self.pid}-{self.n} elem={elem}"] + list(lines) + ["end"])


def uniq(n, base=1):
    return list(range(base, base + n))


def shapes(maxd):
    """all (C,R) obeying the zero rule"""
    out = [(0, 0)]
    for c in range(1, maxd + 1):
        for r in range(1, maxd + 1):
            out.append((c, r))
    return out


def windows(C, R, extra=0):
    """all (c0,r0,c1,r1) with 0<=c0<=c1<=C+extra etc."""
    out = []
    for c0 in range(C + 1 + extra):
        for c1 in range(C + 1 + extra):
            for r0 in range(R + 1 + extra):
                for r1 in range(R + 1 + extra):
                    out.append((c0, r0, c1, r1))
    return out


def valid_windows(C, R):
    return [(c0, r0, c1, r1) for (c0, r0, c1, r1) in windows(C, R) if c0 <= c1 and r0 <= r1]


def sample(rng, l, k):
    return l if len(l) <= k else rng.sample(l, k)


# ------------------------------------------------------------------------------------------ C20

def gen_C20(tier, seed):
    rng = random.Random(seed)
    b = Builder("C20")
    small = range(0, 5 if tier == "quick" else 6)
    dims = [(c, r) for c in list(small) + HUGE for r in list(small) + HUGE]
    for elem in ["u32", "cell"]:
        for (c, r) in dims:
            prod = c * r
            valid_shape = (c == 0) == (r == 0) and prod <= U64
            allocates_huge = valid_shape and prod > 64
            if not allocates_huge:
                b.case(elem, [f"@ new {c} {r}", "@ dump", "@ lens"])
                b.case(elem, [f"@ init {c} {r} 7", "@ dump", "@ lens"])
            lens = sorted(set(x for x in [prod - 1, prod, prod + 1, 0, 3] if 0 <= x <= 40))
            for n in lens:
                for ctor in ["from_vec", "from_box"]:
                    b.case(elem, [f"@ {ctor} {c} {r} {fl(uniq(n))}", "@ dump", "@ lens", "@ size"])
            # views directly over a slice: root holds a flat buffer of n cells
            for n in sorted(set(x for x in [prod - 1, prod, prod + 2, 6] if 0 <= x <= 40)):
                root = f"@ from_vec {n} {1 if n else 0} {fl(uniq(n))}"
                for k in sorted(set([n, max(0, n - 1), n + 1])):
                    b.case(elem, [root, f"@s({c},{r},{k}) dump", f"@s({c},{r},{k}) dumppos",
                                  f"@S({c},{r},{k}) dump", f"@S({c},{r},{k}) lens", f"@s({c},{r},{k}) to_owned"])
        for n in [0, 5, 2**63, U64]:
            b.case(elem, [f"@ with_capacity {n}", "@ dump", "@ capacity"])
        b.case(elem, ["@ default", "@ dump", "@ lens"])
        # conversions on all shapes
        for (c, r) in shapes(4):
            d = uniq(c * r, 10)
            root = f"@ from_vec {c} {r} {fl(d)}"
            other = list(d)
            if other:
                other[rng.randrange(len(other))] += 100
            b.case(elem, [root, "@ clone", f"@ eq {c} {r} {fl(d)}", f"@ eq {c} {r} {fl(other)}",
                          f"@ eq {r} {c} {fl(d)}", "@ into_vec", "@ dump"])
            b.case(elem, [root, "@ into_box", "@ dump"])
            for k in sorted(set([0, 1, c * r, c * r + 1])):
                b.case(elem, [root, f"@ into_iter {k}", "@ dump"])
            for w in sample(rng, valid_windows(c, r), 12 if tier == "quick" else 60):
                ws = ",".join(map(str, w))
                b.case(elem, [root, f"@v({ws}) to_owned", f"@w({ws}) to_owned", f"@w({ws}) vieweq"])
    return b.cases


# ------------------------------------------------------------------------------------------ C02

def coord_values(dim, stride):
    vals = list(range(dim + 2)) + [2**32, 2**63, U64, U64 - 1]
    if stride > 0:
        q = (2**64 + stride - 1) // stride
        vals += [q, q + 1, q * 2 % (2**64), (2**64 + 1) // stride, (2**64 + 2) // stride]
    return sorted(set(v for v in vals if 0 <= v <= U64))


def recv_variants(rng, C, R, n_windows):
    """receiver tokens (with their expected dims unknown to the generator): root, ext, views, nested views"""
    out = ["@", "@x"]
    ws = valid_windows(C, R)
    for w in sample(rng, ws, n_windows):
        s = ",".join(map(str, w))
        out += [f"@v({s})", f"@w({s})"]
        wc, wr = w[2] - w[0], w[3] - w[1]
        if wc > 0 and wr > 0:
            inner = sample(rng, valid_windows(wc, wr), 2)
            for i in inner:
                t = ",".join(map(str, i))
                out += [f"@v({s})v({t})", f"@v({s})w({t})", f"@w({s})w({t})", f"@xv({s})v({t})"]
    return out


def gen_C02(tier, seed):
    rng = random.Random(seed)
    b = Builder("C02")
    maxd = 4 if tier == "quick" else 5
    for (C, R) in shapes(maxd):
        if C * R == 0:
            shapes_here = [(0, 0)]
        d = uniq(C * R, 100)
        root = f"@ from_vec {C} {R} {fl(d)}"
        recvs = recv_variants(rng, C, R, 3 if tier == "quick" else 10)
        for rv in recvs:
            mut = "w(" not in rv
            lines = [root, f"{rv} size", f"{rv} dumppos", f"{rv} dump"]
            cs = coord_values(C, C)
            rs = coord_values(R, C)
            pairs = [(c, r) for c in cs for r in rs]
            pairs = sample(rng, pairs, 40 if tier == "quick" else 150)
            for (c, r) in pairs:
                lines.append(f"{rv} get {c} {r}")
                lines.append(f"{rv} rowget {r} {c}")
                lines.append(f"{rv} colget {c} {r}")
                if mut:
                    lines.append(f"{rv} colmget {c} {r}")
            for r in rs:
                lines.append(f"{rv} row {r}")
            b.case("u32", lines)
            if mut:
                lines = [root]
                k = 500
                for (c, r) in sample(rng, pairs, 25):
                    k += 1
                    op = rng.choice(["set", "rowset", "colset"])
                    if op == "set":
                        lines.append(f"{rv} set {c} {r} {k}")
                    elif op == "rowset":
                        lines.append(f"{rv} rowset {r} {c} {k}")
                    else:
                        lines.append(f"{rv} colset {c} {r} {k}")
                b.case(rng.choice(["u32", "cell"]), lines)
        # unchecked getters on valid coordinates only (root + one view)
        if C * R > 0:
            lines = [root]
            for r in range(R):
                lines.append(f"@ rowu {r}")
                for c in range(C):
                    lines += [f"@ getu {c} {r}", f"@ setu {c} {r} {900 + c}", f"@ rowsetu {r} {c} {800 + c}",
                              f"@v(0,0,{C},{R}) getu {c} {r}", f"@w(0,0,{C},{R}) getu {c} {r}", f"@v(0,0,{C},{R}) setu {c} {r} 7"]
                lines += [f"@v(0,0,{C},{R}) rowu {r}", f"@w(0,0,{C},{R}) rowu {r}"]
            b.case("u32", lines)
    return b.cases


# ------------------------------------------------------------------------------------------ C03

def gen_C03(tier, seed):
    rng = random.Random(seed)
    b = Builder("C03")
    maxd = 3 if tier == "quick" else 4
    for (C, R) in shapes(maxd):
        d = uniq(C * R, 100)
        root = f"@ from_vec {C} {R} {fl(d)}"
        allw = windows(C, R, extra=1)
        for chunk_start in range(0, len(allw), 40):
            lines = [root]
            for w in allw[chunk_start:chunk_start + 40]:
                s = ",".join(map(str, w))
                for pre in ["@", "@x"]:
                    lines += [f"{pre}v({s}) size", f"{pre}v({s}) dumppos", f"{pre}w({s}) dumppos"]
                lines += [f"@v({s}) dump", f"@w({s}) dump"]
            b.case("u32", lines)
        # nested: every valid outer window x all inner windows (incl. one-off invalid), three receiver kinds
        outers = [w for w in valid_windows(C, R)]
        for w in sample(rng, outers, 6 if tier == "quick" else 30):
            s = ",".join(map(str, w))
            wc, wr = w[2] - w[0], w[3] - w[1]
            if wc == 0 or wr == 0:
                wc = wr = 0
            inner = windows(wc, wr, extra=1)
            lines = [root]
            for i in sample(rng, inner, 40 if tier == "quick" else 200):
                t = ",".join(map(str, i))
                lines += [f"@v({s})v({t}) dumppos", f"@v({s})w({t}) dumppos", f"@w({s})w({t}) dumppos", f"@v({s})v({t}) size"]
                ic, ir = i[2] - i[0], i[3] - i[1]
                if 0 <= i[0] <= i[2] <= wc and 0 <= i[1] <= i[3] <= wr and ic > 0 and ir > 0:
                    # depth 3 + a write through the innermost mutable view
                    lines += [f"@v({s})v({t})v(0,0,{ic},{ir}) dumppos",
                              f"@v({s})v({t}) set {rng.randrange(ic)} {rng.randrange(ir)} 7777", "@ dump"]
            b.case("u32", lines)
        # views built directly over a slice, then windows of those
        n = C * R
        if n:
            lines = [f"@ from_vec {n} 1 {fl(uniq(n, 100))}"]
            for w in sample(rng, windows(C, R, extra=1), 30):
                t = ",".join(map(str, w))
                lines += [f"@S({C},{R},{n})v({t}) dumppos", f"@s({C},{R},{n})w({t}) dumppos", f"@S({C},{R},{n})w({t}) dump"]
            b.case("u32", lines)
    return b.cases


# ------------------------------------------------------------------------------------------ C06 / C07

def gen_C06(tier, seed):
    rng = random.Random(seed)
    b = Builder("C06")
    maxd = 4 if tier == "quick" else 5
    k = 1000
    for elem in ["u32", "cell", "zst"]:
        for (C, R) in shapes(maxd):
            d = uniq(C * R, 100)
            root = f"@ from_vec {C} {R} {fl(d)}"
            for reserve in ["", "@ reserve 7", "@ shrink_to_fit"]:
                if reserve and tier == "quick" and (C + R) % 2:
                    continue
                pre = [root] + ([reserve] if reserve else [])
                # rows
                for i in range(R + 2):
                    for L in range(C + 2) if C else range(0, 4):
                        items = uniq(L, k); k += 7
                        b.case(elem, pre + [f"@ insert_row {i} {L} {fl(items)}", "@ dump", "@ lens", "@ capacity"])
                for L in sorted(set([C, C + 1, 0])):
                    items = uniq(L, k); k += 7
                    b.case(elem, pre + [f"@ push_row {L} {fl(items)}", "@ dump", f"@ push_row {L} {fl(uniq(L, k + 50))}", "@ dump"])
                # cols
                for i in range(C + 2):
                    for L in range(R + 2) if R else range(0, 4):
                        items = uniq(L, k); k += 7
                        b.case(elem, pre + [f"@ insert_col {i} {L} {fl(items)}", "@ dump", "@ lens", "@ capacity"])
                for L in sorted(set([R, R + 1, 0])):
                    items = uniq(L, k); k += 7
                    b.case(elem, pre + [f"@ push_col {L} {fl(items)}", "@ dump", f"@ push_col {L} {fl(uniq(L, k + 50))}", "@ dump"])
    # random build-up histories from the empty array
    for n in range(40 if tier == "quick" else 400):
        elem = rng.choice(["u32", "cell", "zst"])
        C = R = 0
        lines = []
        for _ in range(rng.randrange(3, 12)):
            if rng.random() < 0.5:
                L = C if R else rng.randrange(0, 5)
                if rng.random() < 0.1:
                    L += 1
                i = rng.randrange(0, R + 1) if rng.random() < 0.9 else R + 1
                lines.append(f"@ insert_row {i} {L} {fl(uniq(L, k))}"); k += 9
                if i <= R and (L == C or R == 0) and L > 0:
                    C, R = L, R + 1
            else:
                L = R if C else rng.randrange(0, 5)
                if rng.random() < 0.1:
                    L += 1
                i = rng.randrange(0, C + 1) if rng.random() < 0.9 else C + 1
                lines.append(f"@ insert_col {i} {L} {fl(uniq(L, k))}"); k += 9
                if i <= C and (L == R or C == 0) and L > 0:
                    C, R = C + 1, L
            lines.append("@ lens")
        b.case(elem, lines)
    return b.cases


def drain_words(n, depth):
    """all words over n,b,l of length <= depth (consumption words for drains)"""
    out = [[]]
    for d in range(1, depth + 1):
        for w in itertools.product("nbl", repeat=d):
            out.append(list(w))
    return out


def gen_C07(tier, seed):
    rng = random.Random(seed)
    b = Builder("C07")
    maxd = 4 if tier == "quick" else 5
    for elem in ["u32", "cell", "zst"]:
        for (C, R) in shapes(maxd):
            d = uniq(C * R, 100)
            root = f"@ from_vec {C} {R} {fl(d)}"
            # every (front, back) split with len() observations in between
            for kind, dim, n in [("row", R, C), ("col", C, R)]:
                for i in range(dim + 1):
                    words = []
                    for f in range(n + 2):
                        for bk in range(n + 2 - f):
                            w = ["l"] + ["n"] * f + ["l"] + ["b"] * bk + ["l", "h"]
                            words.append(w)
                    words += [list(w) for w in sample(rng, drain_words(n, min(n + 2, 4)), 12 if tier == "quick" else 80)]
                    for w in sample(rng, words, 10 if tier == "quick" else 60):
                        b.case(elem, [root, f"@ remove_{kind} {i} {','.join(w) if w else '-'} drop", "@ dump", "@ lens"])
                b.case(elem, [root, f"@ remove_{kind} {dim + 1} - drop", f"@ remove_{kind} {U64} n drop", "@ dump"])
            # pop until empty and beyond
            lines = [root]
            for _ in range(R + 2):
                lines += ["@ pop_row n,l drop", "@ lens"]
            b.case(elem, lines)
            lines = [root]
            for _ in range(C + 2):
                lines += ["@ pop_col b,l drop", "@ lens"]
            b.case(elem, lines)
    return b.cases


# ------------------------------------------------------------------------------------------ C08 / C09 / C10

def big_ns(d):
    out = [2**32, 2**63, U64]
    if d > 0:
        q = (2**64 + d - 1) // d
        out += [q, q - 1, q + 1, (2**64 + 1) // d]
    return [x for x in out if 0 <= x <= U64]


def iter_steps(n, d, kind, allow_consuming=True):
    steps = ["n", "b", "l", "h"] + [f"N{i}" for i in range(n + 2)] + [f"B{i}" for i in range(n + 2)]
    if kind != "col":
        steps.append("w")
    else:
        steps += [f"i{i}" for i in range(n + 2)]
    return steps


def gen_iter(pid, tier, seed, kinds):
    """kinds: list of (iterator op prefix, is_col, is_cells)"""
    rng = random.Random(seed)
    b = Builder(pid)
    maxd = 3 if tier == "quick" else 4
    depth = 3
    for (C, R) in shapes(maxd):
        d = uniq(C * R, 100)
        root = f"@ from_vec {C} {R} {fl(d)}"
        recvs = ["@", "@x"]
        ws = valid_windows(C, R)
        for w in sample(rng, ws, 4 if tier == "quick" else 14):
            s = ",".join(map(str, w))
            recvs += [f"@v({s})", f"@w({s})"]
            wc, wr = w[2] - w[0], w[3] - w[1]
            if wc > 1 and wr > 1:
                recvs.append(f"@v({s})v(1,0,{wc},{wr - 1})")
        recvs += [f"@S({C},{R},{C * R})", f"@s({C},{R},{C * R})"]
        for rv in recvs:
            shared = "w(" in rv or "s(" in rv
            for (name, is_col, is_cells) in kinds:
                if name.endswith("_mut") and shared:
                    continue
                if name.startswith("iter_") and rv.startswith("@x"):
                    continue
                if name == "iter_mut" and shared:
                    continue
                cols = range(C + 1) if is_col else [None]
                for c in cols:
                    n = (C * R) if is_cells else R
                    n = min(n, 9)
                    stride = C
                    steps = iter_steps(min(n, 4), stride, "col" if is_col else ("cells" if is_cells else "rows"))
                    finals = ["c", "L", "f", "r"]
                    words = []
                    # exhaustive words up to depth over a reduced alphabet + random longer ones with huge arguments
                    alpha = ["n", "b", "l", "N0", "N1", "B0", "B1"] + ([f"i{min(n,1)}"] if is_col else [])
                    for dd in range(0, depth + 1):
                        for w_ in itertools.product(alpha, repeat=dd):
                            words.append(list(w_))
                    words = sample(rng, words, 25 if tier == "quick" else 200)
                    for _ in range(25 if tier == "quick" else 250):
                        L = rng.randrange(1, 10)
                        w_ = [rng.choice(steps) for _ in range(L)]
                        if rng.random() < 0.3:
                            pos = rng.randrange(L)
                            w_[pos] = rng.choice(["N", "B"] + (["i"] if is_col else [])) + str(rng.choice(big_ns(stride if not is_cells else 1) + big_ns(max(1, C))))
                        if rng.random() < 0.5:
                            w_.append(rng.choice(finals))
                        words.append(w_)
                    lines = [root]
                    for w_ in words:
                        ws_ = ",".join(w_) if w_ else "-"
                        lines.append(f"{rv} {name}{'' if c is None else ' ' + str(c)} {ws_}")
                    b.case("u32", lines)
    return b.cases


def gen_C08(tier, seed):
    return gen_iter("C08", tier, seed, [("rows", False, False), ("rows_mut", False, False)])


def gen_C09(tier, seed):
    return gen_iter("C09", tier, seed, [("col", True, False), ("col_mut", True, False)])


def gen_C10(tier, seed):
    return gen_iter("C10", tier, seed, [("cells", False, True), ("cells_mut", False, True), ("iter_ref", False, True), ("iter_mut", False, True)])


# ------------------------------------------------------------------------------------------ registry

GENS = {}


def register():
    for k, v in list(globals().items()):
        if k.startswith("gen_C"):
            GENS[k[4:]] = v


def generate(pid, tier, seed):
    register()
    if pid not in GENS:
        raise SystemExit(f"no generator for {pid}")
    return GENS[pid](tier, seed)


RULES = {
    "C20": "exhaustive: every constructor x dims in {0..4(5),2^32,2^63,2^64-1}^2 x buffer lengths product-1..product+1 x {u32,cell}; conversions on all shapes <=4x4; a step is non-trivial/distinct by (op line, state before)",
    "C02": "all shapes <= 4x4 (5x5), receivers root/ext/view/view_mut/nested (sampled windows), coordinates in {0..dim+1, 2^32, 2^63, 2^64-1, ceil(2^64/stride)..}; every checked accessor; distinct = (op line, state before)",
    "C03": "all parents <= 3x3 (4x4) x all (start,end) in {0..dim+1}^4 x 3 receiver kinds, nested to depth 3 (sampled), slice-built roots; distinct = (op line, state before)",
}


def rule(pid, tier):
    return RULES.get(pid, "see DESIGN.md §6/" + pid) + f"; tier={tier}"


def exhaustive(pid, tier):
    return False


PARTIAL = {}


def partial(pid):
    return PARTIAL.get(pid, [])


def assumptions(pid):
    return ["std components (Vec, slice, ptr, serde_json) behave as specified in DESIGN.md §8",
            "two build profiles (debug; release with overflow-checks=off), 64-bit usize",
            "the harness and the driver parse/print the protocol faithfully"]


def abort_is_violation(pid, line):
    """A non-unwinding abort / hang of the implementation on a generated (safe-API) input is itself a failure of every
    property whose text promises a panic-or-result (all of them)."""
    return True
