"""Case generators for the correspondence check (DESIGN.md §5.5).

Every generator returns a list of cases; a case is a list of protocol lines starting with `case <id> elem=<kind>`
and ending with `end`.  All random choices derive from one `random.Random(seed)`.
"""
import random, itertools

U64 = 2**64 - 1
HUGE = [2**32, 2**63, U64]


def fl(l):
    return ",".join(str(x) for x in l) if l else "-"


class Builder:
    def __init__(self, pid):
        self.pid = pid
        self.cases = []
        self.n = 0

    def case(self, elem, lines):
        self.n += 1
        self.cases.append([f"case {self.pid}-{self.n} elem={elem}"] + list(lines) + ["end"])


def uniq(n, base=1):
    return list(range(base, base + n))


def shapes(maxd):
    """all (C,R) obeying the zero rule"""
    out = [(0, 0)]
    for c in range(1, maxd + 1):
        for r in range(1, maxd + 1):
            out.append((c, r))
    # a few shapes that cross typical fast-path thresholds (8, 16 cells per line; 32 / 64 in the larger scope): a change that
    # only misbehaves for "wide enough" or "tall enough" arrays is invisible on the small exhaustive shapes
    if maxd >= 3:
        out += BIG_SHAPES_THOROUGH if maxd >= 5 else BIG_SHAPES_QUICK
    return out


BIG_SHAPES_QUICK = [(9, 2), (2, 9), (17, 3), (3, 17)]
BIG_SHAPES_THOROUGH = BIG_SHAPES_QUICK + [(33, 2), (2, 33), (65, 3), (3, 65)]


def windows(C, R, extra=0):
    """all (c0,r0,c1,r1) with 0<=c0<=c1<=C+extra etc."""
    out = []
    for c0 in range(C + 1 + extra):
        for c1 in range(C + 1 + extra):
            for r0 in range(R + 1 + extra):
                for r1 in range(R + 1 + extra):
                    out.append((c0, r0, c1, r1))
    return out


def valid_windows(C, R):
    return [(c0, r0, c1, r1) for (c0, r0, c1, r1) in windows(C, R) if c0 <= c1 and r0 <= r1]


def sample(rng, l, k):
    return l if len(l) <= k else rng.sample(l, k)


# ------------------------------------------------------------------------------------------ C20

def gen_C20(tier, seed):
    rng = random.Random(seed)
    b = Builder("C20")
    small = range(0, 5 if tier == "quick" else 6)
    dims = [(c, r) for c in list(small) + HUGE for r in list(small) + HUGE]
    dims += [(2**32, 2**30), (2**31, 2**31), (2**62, 3), (1, 2**63), (2**61, 1)]      # product fits a usize, not a Vec
    for elem in ["u32", "cell"]:
        for (c, r) in dims:
            prod = c * r
            valid_shape = (c == 0) == (r == 0) and prod <= U64
            # a valid shape beyond what a Vec<T> can hold panics with "capacity overflow" before allocating (safe to run);
            # between 64 cells and that limit the allocation would really be attempted (skipped)
            caplimit = (2**63 - 1) // (4 if elem == "u32" else 16)
            allocates_huge = valid_shape and 64 < prod <= caplimit
            if not allocates_huge:
                b.case(elem, [f"@ new {c} {r}", "@ dump", "@ lens"])
                b.case(elem, [f"@ init {c} {r} 7", "@ dump", "@ lens"])
            lens = sorted(set(x for x in [prod - 1, prod, prod + 1, 0, 3] if 0 <= x <= 40))
            for n in lens:
                for ctor in ["from_vec", "from_box"]:
                    b.case(elem, [f"@ {ctor} {c} {r} {fl(uniq(n))}", "@ dump", "@ lens", "@ size"])
            # views directly over a slice: root holds a flat buffer of n cells
            for n in sorted(set(x for x in [prod - 1, prod, prod + 2, 6] if 0 <= x <= 40)):
                root = f"@ from_vec {n} {1 if n else 0} {fl(uniq(n))}"
                for k in sorted(set([n, max(0, n - 1), n + 1])):
                    b.case(elem, [root, f"@s({c},{r},{k}) dump", f"@s({c},{r},{k}) dumppos",
                                  f"@S({c},{r},{k}) dump", f"@S({c},{r},{k}) lens", f"@s({c},{r},{k}) to_owned"])
        for n in [0, 5, 2**63, U64]:
            b.case(elem, [f"@ with_capacity {n}", "@ dump", "@ capacity"])
        b.case(elem, ["@ default", "@ dump", "@ lens"])
        # conversions on all shapes
        for (c, r) in shapes(4):
            d = uniq(c * r, 10)
            root = f"@ from_vec {c} {r} {fl(d)}"
            other = list(d)
            if other:
                other[rng.randrange(len(other))] += 100
            b.case(elem, [root, "@ clone", f"@ eq {c} {r} {fl(d)}", f"@ eq {c} {r} {fl(other)}",
                          f"@ eq {r} {c} {fl(d)}", "@ into_vec", "@ dump"])
            # near misses: the same cells under every other factorisation of the product, a row / column fewer (prefix), a row /
            # column more — `==` must be false for all of them, and a true `==` must come with an equal hash
            near = []
            n = c * r
            for c2 in range(0, n + 1):
                if c2 and n % c2 == 0 and (c2, n // c2) != (c, r):
                    near.append(f"@ eq {c2} {n // c2} {fl(d)}")
            if r > 1:
                near.append(f"@ eq {c} {r - 1} {fl(d[:c * (r - 1)])}")
                near.append(f"@ eq {c} {r - 1} {fl(d[c:])}")
            if c > 1 and r > 0:
                keep = [x for j, x in enumerate(d) if j % c != c - 1]
                near.append(f"@ eq {c - 1} {r} {fl(keep)}")
            if n:
                near.append(f"@ eq {c} {r + 1} {fl(d + d[:c])}")
                near.append(f"@ eq {c + 1} {r} {fl([x for row in range(r) for x in (d[row * c:(row + 1) * c] + [d[row * c]])])}")
                near.append("@ eq 0 0 -")
            else:
                near.append("@ eq 1 1 5")
            b.case(elem, [root] + near)
            b.case(elem, [root, "@ into_box", "@ dump"])
            # clone_from a source with fewer / as many / more cells, an empty source, into an empty array
            for (c2, r2) in [(c, r), (r, c), (c + 1, r), (max(c - 1, 0), max(r - 1, 0)) if c > 1 and r > 1 else (0, 0), (0, 0), (c + 2, r + 1)]:
                if (c2 == 0) != (r2 == 0):
                    continue
                b.case(elem, [root, f"@ clone_from {c2} {r2} {fl(uniq(c2 * r2, 300))}", "@ dump", "@ lens"])
            for k in sorted(set([0, 1, c * r, c * r + 1])):
                b.case(elem, [root, f"@ into_iter {k}", "@ dump"])
            for w in sample(rng, valid_windows(c, r), 12 if tier == "quick" else 60):
                ws = ",".join(map(str, w))
                b.case(elem, [root, f"@v({ws}) to_owned", f"@w({ws}) to_owned", f"@w({ws}) vieweq"])
    # an element type whose `==` is not reflexive for one value (like a float's NaN): `==` on arrays is cell by cell, so an array
    # holding such a cell is not even equal to itself or to its clone; the hash still agrees
    NANV = 4242424242
    for (c, r) in shapes(3):
        n = c * r
        for pos in ([None] + sorted(set([0, n - 1, n // 2]))) if n else [None]:
            d = uniq(n, 10)
            if pos is not None and 0 <= pos < n:
                d[pos] = NANV
            b.case("nan", [f"@ from_vec {c} {r} {fl(d)}", "@ eqself", f"@ eq {c} {r} {fl(d)}", "@ clone", f"@ clone_from {c} {r} {fl(d)}", "@ eqself",
                           f"@ eq {c} {r} {fl(uniq(n, 10))}", "@ dump"])
    return b.cases


# ------------------------------------------------------------------------------------------ C02

def coord_values(dim, stride):
    vals = list(range(dim + 2)) + [2**32, 2**63, U64, U64 - 1]
    if stride > 0:
        q = (2**64 + stride - 1) // stride
        vals += [q, q + 1, q * 2 % (2**64), (2**64 + 1) // stride, (2**64 + 2) // stride]
    return sorted(set(v for v in vals if 0 <= v <= U64))


def recv_variants(rng, C, R, n_windows):
    """receiver tokens (with their expected dims unknown to the generator): root, ext, views, nested views"""
    out = ["@", "@x"]
    ws = valid_windows(C, R)
    for w in sample(rng, ws, n_windows):
        s = ",".join(map(str, w))
        out += [f"@v({s})", f"@w({s})"]
        wc, wr = w[2] - w[0], w[3] - w[1]
        if wc > 0 and wr > 0:
            inner = sample(rng, valid_windows(wc, wr), 2)
            for i in inner:
                t = ",".join(map(str, i))
                out += [f"@v({s})v({t})", f"@v({s})w({t})", f"@w({s})w({t})", f"@xv({s})v({t})"]
    return out


def gen_C02(tier, seed):
    rng = random.Random(seed)
    b = Builder("C02")
    maxd = 4 if tier == "quick" else 5
    for (C, R) in shapes(maxd):
        if C * R == 0:
            shapes_here = [(0, 0)]
        d = uniq(C * R, 100)
        root = f"@ from_vec {C} {R} {fl(d)}"
        recvs = recv_variants(rng, C, R, 3 if tier == "quick" else 10)
        if C * R > 0 and C * R <= 25:
            # the accessors after a call that failed half-way (caller code panicked inside it): the array must still address its cells
            for bad in [f"@ clone_from {C + 1} {R + 1} {fl(uniq((C + 1) * (R + 1), 700))} !clone:{C + 1}",
                        f"@ clone_from 1 1 709 !clone:0", f"@ insert_row {R // 2} {C} {','.join(['7'] * (C - 1) + ['!'])}",
                        f"@ insert_col {C // 2} {R} {','.join(['!'] + ['7'] * (R - 1))}", f"@ remove_col 0 n leak", f"@ remove_row {R - 1} - leak"]:
                lines = [root, bad, "@ size", "@ dump"]
                for c in range(C + 1):
                    for r in range(R + 1):
                        lines += [f"@ get {c} {r}", f"@ rowget {r} {c}", f"@ colget {c} {r}"]
                b.case("cell", lines)
        for rv in recvs:
            mut = "w(" not in rv
            lines = [root, f"{rv} size", f"{rv} dumppos", f"{rv} dump"]
            cs = coord_values(C, C)
            rs = coord_values(R, C)
            pairs = [(c, r) for c in cs for r in rs]
            pairs = sample(rng, pairs, 40 if tier == "quick" else 150)
            for (c, r) in pairs:
                lines.append(f"{rv} get {c} {r}")
                lines.append(f"{rv} rowget {r} {c}")
                lines.append(f"{rv} colget {c} {r}")
                if mut:
                    lines.append(f"{rv} colmget {c} {r}")
            for r in rs:
                lines.append(f"{rv} row {r}")
            b.case("u32", lines)
            if mut:
                lines = [root]
                k = 500
                for (c, r) in sample(rng, pairs, 25):
                    k += 1
                    op = rng.choice(["set", "rowset", "colset"])
                    if op == "set":
                        lines.append(f"{rv} set {c} {r} {k}")
                    elif op == "rowset":
                        lines.append(f"{rv} rowset {r} {c} {k}")
                    else:
                        lines.append(f"{rv} colset {c} {r} {k}")
                b.case(rng.choice(["u32", "cell"]), lines)
        # unchecked getters on valid coordinates only: narrow and nested views (stride > width), every cell
        if C * R > 0:
            for rv in mut_receivers(rng, C, R, 3 if tier == "quick" else 8):
                cc, rr = recv_dims(C, R, rv)
                lines = [root]
                for r in range(rr):
                    lines += [f"{rv} rowu {r}", f"{rv} rowsetu {r} {cc - 1} {700 + r}"]
                    for c in range(cc):
                        lines += [f"{rv} getu {c} {r}", f"{rv} setu {c} {r} {900 + 10 * r + c}", f"{rv} get {c} {r}"]
                if rr:
                    b.case("u32", lines)
                sh = rv.replace("v(", "w(") if rv.startswith("@v(") else None
                if sh and rr:
                    b.case("u32", [root] + [f"{sh} getu {c} {r}" for r in range(rr) for c in range(cc)] + [f"{sh} rowu {r}" for r in range(rr)])
            lines = [root]
            for r in range(R):
                lines.append(f"@ rowu {r}")
                for c in range(C):
                    lines += [f"@ getu {c} {r}", f"@ setu {c} {r} {900 + c}", f"@ rowsetu {r} {c} {800 + c}",
                              f"@v(0,0,{C},{R}) getu {c} {r}", f"@w(0,0,{C},{R}) getu {c} {r}", f"@v(0,0,{C},{R}) setu {c} {r} 7"]
                lines += [f"@v(0,0,{C},{R}) rowu {r}", f"@w(0,0,{C},{R}) rowu {r}"]
            b.case("u32", lines)
    return b.cases


# ------------------------------------------------------------------------------------------ C03

def gen_C03(tier, seed):
    rng = random.Random(seed)
    b = Builder("C03")
    maxd = 3 if tier == "quick" else 4
    for (C, R) in shapes(maxd):
        d = uniq(C * R, 100)
        root = f"@ from_vec {C} {R} {fl(d)}"
        allw = windows(C, R, extra=1)
        for chunk_start in range(0, len(allw), 40):
            lines = [root]
            for w in allw[chunk_start:chunk_start + 40]:
                s = ",".join(map(str, w))
                for pre in ["@", "@x"]:
                    lines += [f"{pre}v({s}) size", f"{pre}v({s}) dumppos", f"{pre}w({s}) dumppos"]
                lines += [f"@v({s}) dump", f"@w({s}) dump"]
            b.case("u32", lines)
        # coordinates whose product with the stride wraps around 2^64 (all invalid: must panic, on every receiver kind)
        lines = [root]
        for wv in wrap_values(C) + [U64, 2**63]:
            for s in [f"0,{wv},{min(C, 1)},{wv}", f"0,0,{min(C, 1)},{wv}", f"{wv},0,{wv},{min(R, 1)}", f"0,{wv},{min(C, 1)},{min(wv + 1, U64)}"]:
                if any(int(x) > U64 for x in s.split(",")):
                    continue
                lines += [f"@v({s}) size", f"@w({s}) size", f"@xv({s}) size"]
                if C >= 2 and R >= 2:
                    lines += [f"@v(1,0,{C},{R})v({s}) size", f"@v(1,0,{C},{R})w({s}) size", f"@w(0,0,{C - 1},{R})w({s}) size"]
        b.case("u32", lines)
        # nested: every valid outer window x all inner windows (incl. one-off invalid), three receiver kinds
        outers = [w for w in valid_windows(C, R)]
        fixed = []
        if C >= 2 and R >= 2:
            fixed = [(1, 0, C, R), (0, 0, C - 1, R), (1, 1, C, R)]
        for w in fixed:
            # narrower than the parent with several rows: every valid inner window, three receiver combinations
            s = ",".join(map(str, w))
            wc, wr = w[2] - w[0], w[3] - w[1]
            lines = [root]
            for i in valid_windows(wc, wr):
                t = ",".join(map(str, i))
                lines += [f"@v({s})v({t}) dumppos", f"@v({s})w({t}) dumppos", f"@w({s})w({t}) dumppos", f"@xv({s})v({t}) dump"]
            b.case("u32", lines)
        for w in sample(rng, outers, 6 if tier == "quick" else 30):
            s = ",".join(map(str, w))
            wc, wr = w[2] - w[0], w[3] - w[1]
            if wc == 0 or wr == 0:
                wc = wr = 0
            inner = windows(wc, wr, extra=1)
            lines = [root]
            for i in sample(rng, inner, 40 if tier == "quick" else 200):
                t = ",".join(map(str, i))
                lines += [f"@v({s})v({t}) dumppos", f"@v({s})w({t}) dumppos", f"@w({s})w({t}) dumppos", f"@v({s})v({t}) size"]
                ic, ir = i[2] - i[0], i[3] - i[1]
                if 0 <= i[0] <= i[2] <= wc and 0 <= i[1] <= i[3] <= wr and ic > 0 and ir > 0:
                    # depth 3 + a write through the innermost mutable view
                    lines += [f"@v({s})v({t})v(0,0,{ic},{ir}) dumppos",
                              f"@v({s})v({t}) set {rng.randrange(ic)} {rng.randrange(ir)} 7777", "@ dump"]
            b.case("u32", lines)
        # views built directly over a slice, then windows of those
        n = C * R
        if n:
            lines = [f"@ from_vec {n} 1 {fl(uniq(n, 100))}"]
            for w in sample(rng, windows(C, R, extra=1), 30):
                t = ",".join(map(str, w))
                lines += [f"@S({C},{R},{n})v({t}) dumppos", f"@s({C},{R},{n})w({t}) dumppos", f"@S({C},{R},{n})w({t}) dump"]
            b.case("u32", lines)
    return b.cases


# ------------------------------------------------------------------------------------------ C06 / C07

def gen_C06(tier, seed):
    rng = random.Random(seed)
    b = Builder("C06")
    maxd = 4 if tier == "quick" else 5
    k = 1000
    for elem in ["u32", "cell", "zst"]:
        for (C, R) in shapes(maxd):
            d = uniq(C * R, 100)
            root = f"@ from_vec {C} {R} {fl(d)}"
            for reserve in ["", "@ reserve 7", "@ shrink_to_fit"]:
                if reserve and tier == "quick" and (C + R) % 2:
                    continue
                pre = [root] + ([reserve] if reserve else [])
                # rows
                for i in range(R + 2):
                    for L in range(C + 2) if C else range(0, 4):
                        items = uniq(L, k); k += 7
                        b.case(elem, pre + [f"@ insert_row {i} {L} {fl(items)}", "@ dump", "@ lens", "@ capacity"])
                if not reserve:
                    # indices far out of range, incl. ones whose product with the line length wraps around 2^64
                    for wv in [U64] + wrap_values(C) + wrap_values(R):
                        b.case(elem, pre + [f"@ insert_row {wv} {C} {fl(uniq(C, k))}", "@ dump", f"@ insert_col {wv} {R} {fl(uniq(R, k + 3))}", "@ dump"]); k += 7
                for L in sorted(set([C, C + 1, 0])):
                    items = uniq(L, k); k += 7
                    b.case(elem, pre + [f"@ push_row {L} {fl(items)}", "@ dump", f"@ push_row {L} {fl(uniq(L, k + 50))}", "@ dump"])
                # "any other length": an iterator that claims the right length but yields one item fewer / more (the call must
                # panic or succeed, and leave a valid array either way)
                Lr = C if R else 2
                for real in sorted(set([max(Lr - 1, 0), Lr + 1])):
                    for i in sorted(set([0, R])):
                        b.case(elem, pre + [f"@ insert_row {i} {Lr} {fl(uniq(real, k))}", "@ dump", "@ lens"]); k += 7
                    b.case(elem, pre + [f"@ push_row {Lr} {fl(uniq(real, k))}", "@ dump", "@ lens"]); k += 7
                Lc = R if C else 2
                for real in sorted(set([max(Lc - 1, 0), Lc + 1])):
                    for i in sorted(set([0, C])):
                        b.case(elem, pre + [f"@ insert_col {i} {Lc} {fl(uniq(real, k))}", "@ dump", "@ lens"]); k += 7
                    b.case(elem, pre + [f"@ push_col {Lc} {fl(uniq(real, k))}", "@ dump", "@ lens"]); k += 7
                # cols
                for i in range(C + 2):
                    for L in range(R + 2) if R else range(0, 4):
                        items = uniq(L, k); k += 7
                        b.case(elem, pre + [f"@ insert_col {i} {L} {fl(items)}", "@ dump", "@ lens", "@ capacity"])
                for L in sorted(set([R, R + 1, 0])):
                    items = uniq(L, k); k += 7
                    b.case(elem, pre + [f"@ push_col {L} {fl(items)}", "@ dump", f"@ push_col {L} {fl(uniq(L, k + 50))}", "@ dump"])
    # random build-up histories from the empty array
    for n in range(40 if tier == "quick" else 400):
        elem = rng.choice(["u32", "cell", "zst"])
        C = R = 0
        lines = []
        for _ in range(rng.randrange(3, 12)):
            if rng.random() < 0.5:
                L = C if R else rng.randrange(0, 5)
                if rng.random() < 0.1:
                    L += 1
                i = rng.randrange(0, R + 1) if rng.random() < 0.9 else R + 1
                lines.append(f"@ insert_row {i} {L} {fl(uniq(L, k))}"); k += 9
                if i <= R and (L == C or R == 0) and L > 0:
                    C, R = L, R + 1
            else:
                L = R if C else rng.randrange(0, 5)
                if rng.random() < 0.1:
                    L += 1
                i = rng.randrange(0, C + 1) if rng.random() < 0.9 else C + 1
                lines.append(f"@ insert_col {i} {L} {fl(uniq(L, k))}"); k += 9
                if i <= C and (L == R or C == 0) and L > 0:
                    C, R = C + 1, L
            lines.append("@ lens")
        b.case(elem, lines)
    return b.cases


def drain_words(n, depth):
    """all words over n,b,l of length <= depth (consumption words for drains)"""
    out = [[]]
    for d in range(1, depth + 1):
        for w in itertools.product("nbl", repeat=d):
            out.append(list(w))
    return out


def gen_C07(tier, seed):
    rng = random.Random(seed)
    b = Builder("C07")
    maxd = 4 if tier == "quick" else 5
    for elem in ["u32", "cell", "zst"]:
        for (C, R) in shapes(maxd):
            d = uniq(C * R, 100)
            root = f"@ from_vec {C} {R} {fl(d)}"
            # every (front, back) split with len() observations in between
            for kind, dim, n in [("row", R, C), ("col", C, R)]:
                for i in range(dim + 1):
                    words = []
                    for f in range(n + 2):
                        for bk in range(n + 2 - f):
                            w = ["l"] + ["n"] * f + ["l"] + ["b"] * bk + ["l", "h"]
                            words.append(w)
                    words += [list(w) for w in sample(rng, drain_words(n, min(n + 2, 4)), 12 if tier == "quick" else 80)]
                    # nth / nth_back (the std defaults: the skipped items are dropped by the drain), incl. huge arguments
                    for k in list(range(n + 2)) + [U64]:
                        words += [["l", f"N{k}", "l", "n", "b"], ["b", f"B{k}", "l", "n"], [f"N{k}", f"B{k}", "l"]]
                    for w in sample(rng, words, 14 if tier == "quick" else 80):
                        b.case(elem, [root, f"@ remove_{kind} {i} {','.join(w) if w else '-'} drop", "@ dump", "@ lens"])
                    # the drain consumed by value through fold / rfold (for_each, count, last, sum, rev().for_each …) after a prefix
                    for w in sample(rng, words, 5 if tier == "quick" else 30):
                        pre = [x for x in w if x != "h"][: rng.randrange(0, 4)]
                        for fin in ("fold", "rfold"):
                            b.case(elem, [root, f"@ remove_{kind} {i} {','.join(pre) if pre else '-'} {fin}", "@ dump", "@ lens"])
                b.case(elem, [root, f"@ remove_{kind} {dim + 1} - drop", f"@ remove_{kind} {U64} n drop", "@ dump"] +
                       [x for wv in wrap_values(C) + wrap_values(R) for x in (f"@ remove_{kind} {wv} n drop", "@ dump")])
            # pop until empty and beyond
            lines = [root]
            for _ in range(R + 2):
                lines += ["@ pop_row n,l drop", "@ lens"]
            b.case(elem, lines)
            lines = [root]
            for _ in range(C + 2):
                lines += ["@ pop_col b,l drop", "@ lens"]
            b.case(elem, lines)
    return b.cases


# ------------------------------------------------------------------------------------------ C08 / C09 / C10

def big_ns(d):
    out = [2**32, 2**63, U64]
    if d > 0:
        q = (2**64 + d - 1) // d
        out += [q, q - 1, q + 1, (2**64 + 1) // d]
    return [x for x in out if 0 <= x <= U64]


def iter_steps(n, d, kind, allow_consuming=True):
    steps = ["n", "b", "l", "h"] + [f"N{i}" for i in range(n + 2)] + [f"B{i}" for i in range(n + 2)]
    if kind != "col":
        steps.append("w")
    else:
        steps += [f"i{i}" for i in range(n + 2)]
    return steps


def gen_iter(pid, tier, seed, kinds):
    """kinds: list of (iterator op prefix, is_col, is_cells)"""
    rng = random.Random(seed)
    b = Builder(pid)
    maxd = 3 if tier == "quick" else 4
    depth = 3
    for (C, R) in shapes(maxd):
        d = uniq(C * R, 100)
        root = f"@ from_vec {C} {R} {fl(d)}"
        recvs = ["@", "@x"]
        ws = valid_windows(C, R)
        for w in sample(rng, ws, 4 if tier == "quick" else 14):
            s = ",".join(map(str, w))
            recvs += [f"@v({s})", f"@w({s})"]
            wc, wr = w[2] - w[0], w[3] - w[1]
            if wc > 1 and wr > 1:
                recvs.append(f"@v({s})v(1,0,{wc},{wr - 1})")
        recvs += [f"@S({C},{R},{C * R})", f"@s({C},{R},{C * R})"]
        for rv in recvs:
            shared = "w(" in rv or "s(" in rv
            for (name, is_col, is_cells) in kinds:
                if name.endswith("_mut") and shared:
                    continue
                if name.startswith("iter_") and rv.startswith("@x"):
                    continue
                if name == "iter_mut" and shared:
                    continue
                cols = range(C + 1) if is_col else [None]
                for c in cols:
                    n = (C * R) if is_cells else R
                    n = min(n, 9)
                    stride = C
                    steps = iter_steps(min(n, 4), stride, "col" if is_col else ("cells" if is_cells else "rows"))
                    finals = ["c", "L", "f", "r"]
                    words = []
                    # exhaustive words up to depth over a reduced alphabet + random longer ones with huge arguments
                    alpha = ["n", "b", "l", "N0", "N1", "B0", "B1"] + ([f"i{min(n,1)}"] if is_col else [])
                    for dd in range(0, depth + 1):
                        for w_ in itertools.product(alpha, repeat=dd):
                            words.append(list(w_))
                    words = sample(rng, words, 25 if tier == "quick" else 200)
                    for _ in range(25 if tier == "quick" else 250):
                        L = rng.randrange(1, 10)
                        w_ = [rng.choice(steps) for _ in range(L)]
                        if rng.random() < 0.3:
                            pos = rng.randrange(L)
                            w_[pos] = rng.choice(["N", "B"] + (["i"] if is_col else [])) + str(rng.choice(big_ns(stride if not is_cells else 1) + big_ns(max(1, C))))
                        if rng.random() < 0.5:
                            w_.append(rng.choice(finals))
                        words.append(w_)
                    lines = [root]
                    for w_ in words:
                        ws_ = ",".join(w_) if w_ else "-"
                        lines.append(f"{rv} {name}{'' if c is None else ' ' + str(c)} {ws_}")
                    b.case("u32", lines)
    return b.cases


def gen_C08(tier, seed):
    return gen_iter("C08", tier, seed, [("rows", False, False), ("rows_mut", False, False)])


def gen_C09(tier, seed):
    return gen_iter("C09", tier, seed, [("col", True, False), ("col_mut", True, False)])


def gen_C10(tier, seed):
    return gen_iter("C10", tier, seed, [("cells", False, True), ("cells_mut", False, True), ("iter_ref", False, True), ("iter_mut", False, True)])


# ------------------------------------------------------------------------------------------ C13 .. C17, C04

def mut_receivers(rng, C, R, nwin, nested=True):
    """mutable receivers: root, ext, view_mut windows (interior, edges, single row/col), nested"""
    out = ["@", "@x"]
    ws = [w for w in valid_windows(C, R)]
    # always include the full-height windows that are narrower than the parent (stride > width with many rows)
    fixed = []
    if C >= 2 and R >= 1:
        fixed = [(1, 0, C, R), (0, 0, C - 1, R)] + ([(1, 0, C - 1, R)] if C >= 3 else [])
    for w in fixed + sample(rng, ws, nwin):
        s = ",".join(map(str, w))
        out.append(f"@v({s})")
        wc, wr = w[2] - w[0], w[3] - w[1]
        if nested and wc > 0 and wr > 0:
            i = rng.choice(valid_windows(wc, wr))
            out.append(f"@v({s})v({','.join(map(str, i))})")
            out.append(f"@xv({s})")
    if C * R > 0:
        out.append(f"@S({C},{R},{C * R})")
        # views built over a slice that is LONGER than the view: the cells after the view belong to the caller
        if R >= 2:
            out.append(f"@S({C},{R - 1},{C * R})")
        if C >= 2:
            out.append(f"@S({C - 1},{R},{C * R})")
    return out


def recv_dims(C, R, rv):
    """dimensions of a receiver token produced by mut_receivers (valid windows only)"""
    import re as _re
    c, r = C, R
    for mm in _re.finditer(r"[vwS]\(([0-9,]+)\)", rv):
        a = list(map(int, mm.group(1).split(",")))
        if len(a) == 4:
            c, r = a[2] - a[0], a[3] - a[1]
            if c == 0 or r == 0:
                c = r = 0
        else:
            c, r = a[0], a[1]
    return c, r


def wrap_values(stride):
    """a few index values whose product with `stride` wraps around 2^64 to something small"""
    if stride <= 1:
        return [2**63, U64]
    q = (2**64 + stride - 1) // stride
    return sorted(set(v for v in [q, q + 1, (2 * 2**64 + stride - 1) // stride] + ([2**63] if stride % 2 == 0 else []) if v <= U64))


def idx_values(dim, stride=0):
    """indices in range, one and two past the end, usize::MAX; with a stride also values whose product with the stride wraps
    around 2^64 to something small (an index check that relies on the multiplication would let them through in release)"""
    vals = list(range(dim + 2)) + [U64]
    if stride > 1:
        q = (2**64 + stride - 1) // stride
        vals += [q, q + 1, (2 * 2**64 + stride - 1) // stride, 2**63 if stride % 2 == 0 else q + 2]
    return sorted(set(v for v in vals if 0 <= v <= U64))


def gen_C13(tier, seed):
    rng = random.Random(seed)
    b = Builder("C13")
    maxd = 4 if tier == "quick" else 5
    for (C, R) in shapes(maxd):
        d = uniq(C * R, 100)
        root = f"@ from_vec {C} {R} {fl(d)}"
        for rv in mut_receivers(rng, C, R, 4 if tier == "quick" else 12):
            c, r = recv_dims(C, R, rv)
            lines = [root]
            for r1 in idx_values(r, C):
                for r2 in idx_values(r, C):
                    lines += [f"{rv} swap_rows {r1} {r2}", f"{rv} row_pair {r1} {r2}"]
            for c1 in idx_values(c):
                for c2 in idx_values(c):
                    lines.append(f"{rv} swap_cols {c1} {c2}")
            cells = [(x, y) for x in idx_values(c) for y in idx_values(r, C)]
            for _ in range(30 if tier == "quick" else 120):
                a, bb = rng.choice(cells), rng.choice(cells)
                lines.append(f"{rv} swap {a[0]} {a[1]} {bb[0]} {bb[1]}")
            # one valid cell against every row index whose product with the stride wraps (and the other way round)
            for y in idx_values(r, C):
                if y > r + 1:
                    lines += [f"{rv} swap 0 0 0 {y}", f"{rv} swap {max(c - 1, 0)} {y} 0 0", f"{rv} swap 0 {y} 0 {y}"]
            b.case("u32", lines)
            b.case("cell", [root, f"{rv} fill 7", "@ dump", f"{rv} swap_rows 0 {max(0, r - 1)}", f"{rv} swap_cols 0 {max(0, c - 1)}",
                            f"{rv} swap 0 0 {max(0, c - 1)} {max(0, r - 1)}", f"{rv} fill 9"])
            b.case("u32", [root, f"{rv} fill 5", "@ dump"])
    return b.cases


def gen_C14(tier, seed):
    rng = random.Random(seed)
    b = Builder("C14")
    maxd = 3 if tier == "quick" else 4
    for (C, R) in shapes(maxd):
        d = uniq(C * R, 100)
        root = f"@ from_vec {C} {R} {fl(d)}"
        for rv in mut_receivers(rng, C, R, 4 if tier == "quick" else 12):
            c, r = recv_dims(C, R, rv)
            n = c * r
            for elem in ["u32", "cell"]:
                lines = [root]
                for L in sorted(set([n, max(0, n - 1), n + 1, 0])):
                    src = uniq(L, 500)
                    if elem == "u32":
                        lines.append(f"{rv} copy_from_slice {fl(src)}")
                    lines.append(f"{rv} clone_from_slice {fl(src)}")
                # sources: owned of the same / different shape, strided view of a larger array
                for (sc, sr) in [(c, r), (r, c), (c + 1, r), (c, r + 1)]:
                    if (sc == 0) != (sr == 0):
                        continue
                    src = uniq(sc * sr, 700)
                    for op in (["copy_from_toodee"] if elem == "u32" else []) + ["clone_from_toodee"]:
                        lines.append(f"{rv} {op} {sc} {sr} {fl(src)}")
                bc, br = c + 2, r + 1
                big = uniq(bc * br, 900)
                for op in (["copy_from_toodee"] if elem == "u32" else []) + ["clone_from_toodee"]:
                    lines.append(f"{rv} {op} {bc} {br} {fl(big)} 1 1 {1 + c} {1 + r}")
                    lines.append(f"{rv} {op} {bc} {br} {fl(big)} 0 0 {c} {r}")
                    lines.append(f"{rv} {op} {bc} {br} {fl(big)} 0 0 {c + 1} {r}")
                    # source views with the receiver's own row gap (C - c for a window of this root; 0 otherwise), at either edge
                    if c and r:
                        same = uniq(C * r, 950)
                        lines.append(f"{rv} {op} {C} {r} {fl(same)} 0 0 {c} {r}")
                        lines.append(f"{rv} {op} {C} {r} {fl(same)} {C - c} 0 {C} {r}")
                b.case(elem, lines)
            # copy_within: all source rectangles x all destination corners (valid + one-off invalid + huge)
            rects = [(c0, r0, c1, r1) for c0 in range(c + 2) for c1 in range(c + 2) for r0 in range(r + 2) for r1 in range(r + 2)]
            dests = [(x, y) for x in list(range(c + 2)) + [U64] for y in list(range(r + 2)) + [U64] + wrap_values(C)[:2]]
            combos = [(q, dd) for q in rects for dd in dests]
            def fits(q, dd):
                return q[0] <= q[2] <= c and q[1] <= q[3] <= r and dd[0] + (q[2] - q[0]) <= c and dd[1] + (q[3] - q[1]) <= r
            valid = [x for x in combos if fits(*x) and x[0][2] > x[0][0] and x[0][3] > x[0][1]]
            other = [x for x in combos if not (fits(*x) and x[0][2] > x[0][0] and x[0][3] > x[0][1])]
            # every fitting non-empty (source rectangle, destination) pair - all overlap directions - when there are few enough
            picked = sample(rng, valid, 700 if tier == "quick" else 5000) + sample(rng, other, 80 if tier == "quick" else 600)
            lines = []
            for (q, dd) in picked:
                lines += [root, f"{rv} copy_within {q[0]} {q[1]} {q[2]} {q[3]} {dd[0]} {dd[1]}"]
            b.case("u32", lines)
    return b.cases


def gen_C15(tier, seed):
    rng = random.Random(seed)
    b = Builder("C15")
    maxd = 5 if tier == "quick" else 8
    for (C, R) in shapes(maxd):
        if tier == "quick" and C * R > 16 and (C + R) % 3:
            continue
        d = uniq(C * R, 100)
        root = f"@ from_vec {C} {R} {fl(d)}"
        lines = []
        for mc in list(range(C + 2)) + [U64]:
            for mr in list(range(R + 2)) + [U64]:
                lines += [root, f"@ translate {mc} {mr}"]
        lines += [root, "@ flip_rows", "@ flip_cols", "@x flip_rows", "@x flip_cols", f"@x translate {C // 2} {R // 2}"]
        b.case("u32", lines)
        for kind in ("zst", "cell"):
            b.case(kind, [root, f"@ translate {C + 1} 0", f"@ translate 0 {R + 1}", f"@ translate {C} {R}", f"@ translate {U64} 0",
                          f"@ translate {C // 2} {R // 2}", "@ flip_rows", "@ flip_cols", f"@x translate {C + 1} {R + 1}", "@ dump"])
        for rv in mut_receivers(rng, C, R, 3 if tier == "quick" else 10)[2:]:
            c, r = recv_dims(C, R, rv)
            lines = []
            for mc in range(c + 2):
                for mr in range(r + 2):
                    lines += [root, f"{rv} translate {mc} {mr}"]
            lines += [root, f"{rv} flip_rows", f"{rv} flip_cols"]
            b.case("u32", lines)
    # larger shapes: every gcd pattern
    for R in ([6, 8, 9, 12] if tier == "quick" else range(6, 17)):
        for C in [1, 3, 4]:
            d = uniq(C * R, 100)
            root = f"@ from_vec {C} {R} {fl(d)}"
            lines = []
            for mr in range(R + 1):
                lines += [root, f"@ translate {rng.randrange(C + 1)} {mr}"]
            b.case("cell", lines)
    return b.cases


SORT_ROW = ["sort_by_row", "sort_unstable_by_row", "sort_by_row_key", "sort_unstable_by_row_key", "sort_row_ord", "sort_unstable_row_ord"]
SORT_COL = ["sort_by_col", "sort_unstable_by_col", "sort_by_col_key", "sort_unstable_by_col_key", "sort_col_ord"]


def key_lines(rng, n, k):
    """distinct cell values whose keys (val % 8) range over a small alphabet: all tie patterns appear over many draws"""
    used = set()
    out = []
    for _ in range(n):
        key = rng.randrange(k)
        v = key + 8 * rng.randrange(1, 200)
        while v in used:
            v += 8
        used.add(v)
        out.append(v)
    return out, used


def gen_sort(pid, tier, seed, ops, by_row):
    rng = random.Random(seed)
    b = Builder(pid)
    maxd = 4 if tier == "quick" else 5
    reps = 3 if tier == "quick" else 12
    for (C, R) in shapes(maxd):
        for rep in range(reps):
            vals, used = key_lines(rng, C * R, 3)
            root = f"@ from_vec {C} {R} {fl(vals)}"
            for rv in mut_receivers(rng, C, R, 2 if tier == "quick" else 6, nested=False):
                c, r = recv_dims(C, R, rv)
                lines = []
                dim = r if by_row else c
                for op in ops:
                    for k in list(range(dim + 2)) + [U64] + wrap_values(C):
                        lines += [root, f"{rv} {op} {k}"]
                b.case(rng.choice(["u32", "cell"]), lines)
                # the natural-order variants compare whole values: ties need EQUAL cells on the key line (the other lines stay
                # distinct so that every column / row keeps its identity)
                if c * r > 0 and rv in ("@", "@x"):
                    lines = []
                    for op in [o for o in ops if o.endswith("_ord")]:
                        for k in range(dim):
                            dup = list(vals)
                            for j in range(C if by_row else R):
                                pos = k * C + j if by_row else j * C + k
                                dup[pos] = 5000 + rng.randrange(2)
                            lines += [f"@ from_vec {C} {R} {fl(dup)}", f"{rv} {op} {k}"]
                    if lines:
                        b.case("u32", lines)
    # wide arrays so that an unstable sort really reorders ties and insertion-sort thresholds are crossed
    for n in ([40, 70] if tier == "quick" else [24, 40, 70, 130, 260]):
        for rep in range(2 if tier == "quick" else 5):
            other = 2
            C, R = (n, other) if by_row else (other, n)
            vals, _ = key_lines(rng, C * R, 2)
            root = f"@ from_vec {C} {R} {fl(vals)}"
            lines = []
            for op in ops:
                lines += [root, f"@ {op} {rng.randrange(other)}", root, f"@v(0,0,{C},{R}) {op} 0", root, f"@x {op} 1"]
                if op.endswith("_ord"):
                    # long key line with many equal VALUES (two-letter alphabet) on line 0, distinct cells on the other line
                    dup = list(vals)
                    for j in range(n):
                        dup[j if by_row else j * C] = 7000 + rng.randrange(2)
                    lines += [f"@ from_vec {C} {R} {fl(dup)}", f"@ {op} 0", f"@ from_vec {C} {R} {fl(dup)}", f"@x {op} 0"]
            b.case("u32", lines)
    return b.cases


def gen_C16(tier, seed):
    return gen_sort("C16", tier, seed, SORT_ROW, True)


def gen_C17(tier, seed):
    return gen_sort("C17", tier, seed, SORT_COL, False)


def gen_C04(tier, seed):
    """every mutating operation on views placed at every kind of position; the whole parent is in the state dump"""
    rng = random.Random(seed)
    b = Builder("C04")
    maxd = 4 if tier == "quick" else 5
    for (C, R) in shapes(maxd):
        if C * R == 0:
            continue
        vals, _ = key_lines(rng, C * R, 3)
        root = f"@ from_vec {C} {R} {fl(vals)}"
        wins = valid_windows(C, R)
        for w in sample(rng, wins, 10 if tier == "quick" else 60):
            s = ",".join(map(str, w))
            c, r = w[2] - w[0], w[3] - w[1]
            if c == 0 or r == 0:
                c = r = 0
            rvs = [f"@v({s})"]
            if c > 1 and r > 1:
                rvs.append(f"@v({s})v(1,1,{c},{r})")
            if w == wins[0] or rng.random() < 0.15:
                # views built directly over a slice longer than the view (spare cells behind it)
                if R >= 2:
                    rvs.append(f"@S({C},{R - 1},{C * R})")
                if C >= 2:
                    rvs.append(f"@S({C - 1},{R},{C * R})")
            for rv in rvs:
                cc, rr = recv_dims(C, R, rv)
                n = cc * rr
                ops = [f"fill 7", f"swap 0 0 {max(cc - 1, 0)} {max(rr - 1, 0)}", f"swap_rows 0 {max(rr - 1, 0)}",
                       f"swap_cols 0 {max(cc - 1, 0)}", f"row_pair 0 {max(rr - 1, 0)}",
                       f"copy_from_slice {fl(uniq(n, 5000))}", f"clone_from_slice {fl(uniq(n, 6000))}",
                       f"copy_from_toodee {cc} {rr} {fl(uniq(n, 7000))}",
                       # a source *view* whose rows lie as far apart as the receiver's (same stride, same gap): the two backing
                       # slices line up cell for cell, gaps included
                       f"copy_from_toodee {C} {max(rr, 1)} {fl(uniq(C * max(rr, 1), 7100))} 0 0 {cc} {rr}",
                       f"clone_from_toodee {C} {max(rr, 1)} {fl(uniq(C * max(rr, 1), 7200))} {C - cc} 0 {C} {rr}",
                       f"copy_within 0 0 {max(cc - 1, 0)} {max(rr - 1, 0)} {1 if cc > 1 else 0} {1 if rr > 1 else 0}",
                       # the other three directions of an overlapping copy, and the row pair asked for in descending order
                       f"copy_within {1 if cc > 1 else 0} {1 if rr > 1 else 0} {cc} {rr} 0 0",
                       f"copy_within 0 {1 if rr > 1 else 0} {max(cc - 1, 0)} {rr} {1 if cc > 1 else 0} 0",
                       f"copy_within {1 if cc > 1 else 0} 0 {cc} {max(rr - 1, 0)} 0 {1 if rr > 1 else 0}",
                       f"row_pair {max(rr - 1, 0)} 0",
                       f"translate {cc // 2} {rr // 2}", f"translate {max(cc - 1, 0)} 1" if rr > 1 else "translate 0 0",
                       f"setu {max(cc - 1, 0)} {max(rr - 1, 0)} 4245" if n else "fill 1", f"rowsetu {max(rr - 1, 0)} 0 4246" if n else "fill 2",
                       "flip_rows", "flip_cols",
                       "sort_by_row 0", "sort_unstable_by_row 0", "sort_by_col 0", "sort_unstable_by_col 0", "sort_by_col_key 0", "sort_row_ord 0",
                       f"set {max(cc - 1, 0)} {max(rr - 1, 0)} 4242", f"rowset {max(rr - 1, 0)} 0 4243", f"colset 0 {max(rr - 1, 0)} 4244",
                       "rows_mut n,b,N0,f", "cells_mut n,b,N1,B1,f", "col_mut 0 n,b,f", f"col_mut {max(cc - 1, 0)} r", "iter_mut f"]
                # the same operations with arguments one past the view's edge (or far out): they must panic *and* still leave
                # every cell outside the view alone (an unchecked access past the view's edge lands in the parent)
                bad = [f"swap {cc} 0 0 0", f"swap 0 0 {cc} {max(rr - 1, 0)}", f"swap 0 {rr} 0 0", f"swap_rows 0 {rr}", f"swap_rows {rr} {rr}",
                       f"swap_cols {cc} 0", f"swap_cols 0 {cc}", f"row_pair 0 {rr}", f"set {cc} 0 4250", f"set 0 {rr} 4251",
                       f"rowset 0 {cc} 4252", f"rowset {rr} 0 4253", f"colset {cc} 0 4254", f"colset 0 {rr} 4255",
                       f"copy_within 0 0 {cc} {rr} 1 0", f"copy_within 0 0 {cc + 1} {rr} 0 0", f"translate {cc + 1} 0", f"translate 0 {rr + 1}",
                       f"sort_by_row {rr}", f"sort_by_col {cc}", f"col_mut {cc} n", f"col_mut 0 i{rr}"]
                # mutable iteration: every word of two steps over next / next_back / nth / nth_back followed by collecting what is
                # left from either end; every yielded cell is written to (the harness bumps it), so a cursor that drifts into the
                # gap between the view's rows shows up as a changed cell outside the view
                steps2 = ["n", "b", "N0", "N1", "B0", "B1"]
                words = [f"{a},{b2},{fin}" for a in steps2 for b2 in steps2 for fin in ("f", "r")]
                if tier == "quick":
                    words = sample(rng, words, 20)
                iter_ops = [f"rows_mut {w}" for w in words] + [f"cells_mut {w}" for w in words] + \
                           [f"col_mut {rng.randrange(cc) if cc else 0} {w}" for w in words[:len(words) // 2]]
                lines = []
                for op in ops + bad + iter_ops:
                    lines += [root, f"{rv} {op}"]
                if n <= 12:
                    for mc in range(cc + 1):
                        for mr in range(rr + 1):
                            lines += [root, f"{rv} translate {mc} {mr}"]
                b.case("u32", lines)
    return b.cases


# ------------------------------------------------------------------------------------------ C18 / C19

TRANSPORTS = ["str", "slice", "reader", "value"]


def gen_C18(tier, seed):
    rng = random.Random(seed)
    b = Builder("C18")
    maxd = 4 if tier == "quick" else 6
    for elem in ["u32", "cell", "zst", "nan"]:       # `nan` (de)serialises its cells through serde's 128-bit integer entry points
        for (C, R) in shapes(maxd) + [(1, 9), (9, 1), (7, 5)]:
            d = [rng.choice([0, 1, 7, 4294967295, rng.randrange(2**32) if elem != "nan" else rng.randrange(1000)]) for _ in range(C * R)]
            root = f"@ from_vec {C} {R} {fl(d)}"
            lines = [root, "@ ser"] + [f"@ roundtrip {t}" for t in TRANSPORTS]
            if elem == "u32":
                for w in sample(rng, valid_windows(C, R), 6 if tier == "quick" else 30):
                    s_ = ",".join(map(str, w))
                    lines.append(f"@v({s_}) ser")
                    lines.append(f"@w({s_}) ser")
                    for t in TRANSPORTS:
                        lines.append(f"@{rng.choice('vw')}({s_}) roundtrip {t}")
                if C * R:
                    lines += [f"@s({C},{R},{C * R}) roundtrip str", f"@S({C},{R},{C * R}) roundtrip value"]
            b.case(elem, lines)
    # arrays and views large enough to cross typical buffer / preallocation thresholds (256, 1024, 4096, 65536 cells)
    big = [(17, 16), (65, 64), (1, 5000), (5000, 1)] + ([(129, 128), (33, 32)] if tier == "thorough" else [])
    for (C, R) in big:
        d = [(7 * j + 3) % 4294967296 for j in range(C * R)]
        root = f"@ from_vec {C} {R} {fl(d)}"
        lines = [root] + [f"@ roundtrip {t}" for t in TRANSPORTS]
        lines += [f"@w(0,0,{C},{R}) roundtrip {t}" for t in TRANSPORTS]
        lines += [f"@v(0,0,{C},{R}) roundtrip str", f"@s({C},{R},{C * R}) roundtrip reader"]
        if C > 2 and R > 2:
            lines += [f"@w(1,1,{C},{R}) roundtrip {t}" for t in TRANSPORTS]       # an interior (strided) window just below the full size
        b.case("u32", lines)
    return b.cases


def json_dim_values():
    return ["0", "1", "2", "3", "4", "6", "4294967296", "9223372036854775808", "18446744073709551615", "18446744073709551616",
            "-1", "1.5", "1e2", "\"3\"", "null", "[]", "{}", "true", "01"]


def gen_C19(tier, seed):
    rng = random.Random(seed)
    b = Builder("C19")
    n = 600 if tier == "quick" else 6000
    docs = []
    small = ["0", "1", "2", "3", "4", "6"]
    for _ in range(n):
        kind = rng.random()
        nc = rng.choice(small) if rng.random() < 0.75 else rng.choice(json_dim_values())
        nr = rng.choice(small) if rng.random() < 0.75 else rng.choice(json_dim_values())
        if rng.random() < 0.12:
            # dimensions whose product wraps around 2^64 to a small number: the length check alone would accept them
            a = rng.choice([2, 3, 4, 5, 6, 7, 2**32, 2**63])
            q = (2**64 + a - 1) // a + rng.randrange(0, 2)
            nc, nr = (str(a), str(q)) if rng.random() < 0.5 else (str(q), str(a))
        try:
            prod = int(nc) * int(nr)
            if prod >= 2**64 and rng.random() < 0.85:
                prod = prod % 2**64
        except ValueError:
            prod = rng.randrange(5)
        L = prod if rng.random() < 0.6 else max(0, prod + rng.choice([-1, 1, 2]))
        L = min(L, 40)
        elems = [str(rng.randrange(100)) for _ in range(L)]
        if rng.random() < 0.1 and elems:
            elems[rng.randrange(len(elems))] = rng.choice(["-1", "1.5", "\"x\"", "null", "4294967296", "[]"])
        data = "[" + ",".join(elems) + "]"
        if rng.random() < 0.05:
            data = rng.choice(["7", "null", "{}", "\"abc\""])
        fields = [("num_cols", nc), ("num_rows", nr), ("data", data)]
        r = rng.random()
        if r < 0.15:
            fields.pop(rng.randrange(3))                       # missing field
        elif r < 0.3:
            k = rng.randrange(3)                                # duplicated field
            dup = fields[k]
            if dup[0] == "data" and rng.random() < 0.7:
                dup = ("data", "[" + ",".join(str(rng.randrange(100)) for _ in range(rng.choice([prod if prod <= 40 else 0, 1, 0]))) + "]")
            fields.insert(rng.randrange(len(fields) + 1), dup)
        elif r < 0.4:
            fields.insert(rng.randrange(4), (rng.choice(["extra", "num_col", "Data", "num_cols ", ""]), "1"))  # unknown key
        rng.shuffle(fields)
        sep = rng.choice([",", ", ", " ,\t"])
        def key(k):
            if rng.random() < 0.1 and k:
                i = rng.randrange(len(k))
                return k[:i] + "\\u%04x" % ord(k[i]) + k[i + 1:]      # escaped key: cannot be borrowed
            return k
        doc = "{" + sep.join(f"\"{key(k)}\":{rng.choice(['', ' '])}{v}" for k, v in fields) + "}"
        if rng.random() < 0.03:
            doc = rng.choice(["[]", "7", "null", "\"x\"", "{", "{}", "[1,2]", doc[:-1]])
        elif rng.random() < 0.08:
            # the same fields as a bare JSON array (a derived / struct-style deserialiser would accept the sequence form): the
            # property demands an error or a consistent array, never a panic, for these too
            vals = [v for _, v in fields]
            rng.shuffle(vals)
            doc = "[" + sep.join(vals[:rng.choice([len(vals), len(vals), 3, 2])]) + "]"
        docs.append(doc)
    for i in range(0, len(docs), 25):
        lines = []
        for d in docs[i:i + 25]:
            lines.append(f"@ de {rng.choice(TRANSPORTS)} {d}")
        b.case("u32", lines)
        if (i // 25) % 3 == 0:
            b.case("zst", lines)          # the element type is a dimension of its own (zero-sized: no allocation, size_of = 0)
    # well-formed documents on the ledgered cell (ownership of the decoded vectors)
    for _ in range(20 if tier == "quick" else 200):
        C, R = rng.choice(shapes(4))
        d = [str(rng.randrange(100)) for _ in range(C * R)]
        doc = "{" + f"\"num_rows\":{R},\"data\":[{','.join(d)}],\"num_cols\":{C}" + "}"
        b.case("cell", [f"@ de {t} {doc}" for t in TRANSPORTS])
    return b.cases


# ------------------------------------------------------------------------------------------ C11 / C12 / C05 / C01

AFTER = ["@ dump", "@ lens", "@ push_row 1 5", "@ dump", "@ pop_col n drop", "@ clear"]


def after_ops(rng, C):
    """read, mutate, then (at `end`) drop: the array must stay usable after the fault / leak"""
    return ["@ dump", "@ lens", f"@ push_row {C} {fl(uniq(C, 90000))}", "@ lens", "@ pop_row n,b drop", "@ pop_col - drop", "@ dump"]


def gen_C11(tier, seed):
    rng = random.Random(seed)
    b = Builder("C11")
    maxd = 3 if tier == "quick" else 4
    k = 1000
    for (C, R) in shapes(maxd):
        d = uniq(C * R, 100)
        root = f"@ from_vec {C} {R} {fl(d)}"
        # clone_from (the Clone impl is caller-visible API too): the j-th element clone panics, sources smaller / larger than the array
        for (c2, r2) in [(C, R), (C + 1, R + 1), (1, 1), (0, 0), (R, C)]:
            if (c2 == 0) != (r2 == 0) or c2 * r2 > 20:
                continue
            n2 = c2 * r2
            for j in sorted(set([0, 1, n2 // 2, max(n2 - 1, 0), n2])):
                b.case("cell", [root, f"@ clone_from {c2} {r2} {fl(uniq(n2, 400))} !clone:{j}", "@ dump", "@ lens", f"@ push_row {C} {fl(uniq(C, 500))}", "@ dump"])
        for elem in ["cell", "zst", "u32"]:
            # iterator faults: panic at every position, lying lengths
            for kind, dim, n in [("row", R, C), ("col", C, R)]:
                for i in sorted(set([0, dim // 2, dim])):
                    reals = sorted(set([n, max(0, n - 1), n + 1] if dim else [0, 1, 2, 3]))
                    for real in reals:
                        for claimed in sorted(set([real, max(0, real - 1), real + 1, n, 0, U64, 2**63])):
                            if elem == "zst" and claimed >= 2**63:
                                pass        # zero-sized: reserve never fails; the counted loop then hits the short iterator
                            for bang in [None] + list(range(real)):
                                if bang is not None and claimed != n:
                                    continue
                                items = [str(x) for x in uniq(real, k)]; k += 5
                                if bang is not None:
                                    items[bang] = "!"
                                ev = ",".join(items) if items else "-"
                                b.case(elem, [root, f"@ insert_{kind} {i} {claimed} {ev}"] + after_ops(rng, C if C else 2))
        # element / comparator faults (ledgered cells)
        n = C * R
        for kk in sorted(set([0, 1, max(0, n - 1), n, n + 1])):
            cases = [
                [f"@ new {C} {R} !default:{kk}"], [f"@ init {C} {R} 7 !clone:{kk}"],
                [root, f"@ fill 7 !clone:{kk}"], [root, f"@ fill 7 !drop:{kk}"], [root, f"@ clone !clone:{kk}"],
                [root, f"@ clone_from_slice {fl(uniq(n, 500))} !clone:{kk}"], [root, f"@ clone_from_slice {fl(uniq(n, 500))} !drop:{kk}"],
                [root, f"@ clone_from_toodee {C} {R} {fl(uniq(n, 600))} !clone:{kk}"],
                [root, f"@x clone_from_toodee {C} {R} {fl(uniq(n, 600))} !clone:{kk}"],
                [root, f"@x fill 3 !clone:{kk}"], [root, f"@v(0,0,{C},{R}) fill 3 !drop:{kk}"],
                [root, f"@v(0,0,{C},{R}) to_owned !clone:{kk}"], [root, f"@w(0,0,{C},{R}) to_owned !clone:{kk}"],
                [root, f"@ clear !drop:{kk}"], [root, f"@ into_iter 1 !drop:{kk}"],
            ]
            if C:
                cases += [[root, f"@ remove_col {C - 1} n drop !drop:{kk}"], [root, f"@ remove_col 0 - drop !drop:{kk}"],
                          [root, f"@ remove_row {R - 1} b drop !drop:{kk}"], [root, f"@ remove_row 0 - drop !drop:{kk}"],
                          [root, f"@ set 0 0 9 !drop:0"], [root, f"@ pop_col b leak !drop:{kk}"]]
                for op in ["sort_by_row 0", "sort_unstable_by_row 0", "sort_by_col 0", "sort_unstable_by_col 0"]:
                    cases.append([root, f"@ {op} !cmp:{kk}"])
                    cases.append([root, f"@v(0,0,{C},{R}) {op} !cmp:{kk}"])
                for op in ["sort_by_row_key 0", "sort_unstable_by_col_key 0", "sort_by_col_key 0"]:
                    cases.append([root, f"@ {op} !key:{kk}"])
            for c in cases:
                b.case("cell", c + after_ops(rng, C if C else 2))
    return b.cases


def gen_C12(tier, seed):
    rng = random.Random(seed)
    b = Builder("C12")
    maxd = 4 if tier == "quick" else 5
    for elem in ["cell", "u32", "zst"]:
        for (C, R) in shapes(maxd):
            if C * R == 0:
                b.case(elem, ["@ default", "@ pop_row - leak", "@ pop_col - leak"] + after_ops(rng, 2))
                continue
            d = uniq(C * R, 100)
            root = f"@ from_vec {C} {R} {fl(d)}"
            for kind, dim, n in [("row", R, C), ("col", C, R)]:
                for i in range(dim):
                    for f in range(n + 1):
                        for bk in range(n + 1 - f):
                            if tier == "quick" and (f + bk + i) % 2 and n > 2:
                                continue
                            w = ["n"] * f + ["b"] * bk + ["l"]
                            b.case(elem, [root, f"@ remove_{kind} {i} {','.join(w)} leak"] + after_ops(rng, C))
                b.case(elem, [root, f"@ pop_{kind} n leak", "@ lens", f"@ pop_{kind} - leak", "@ lens", f"@ pop_{kind} b leak"] + after_ops(rng, C))
                b.case(elem, [root, f"@ remove_{kind} 0 N1,l leak"] + after_ops(rng, C))
                b.case(elem, [root, f"@ remove_{kind} 0 B1,n leak"] + after_ops(rng, C))
            # borrow-only values: creating and dropping iterators/views changes nothing
            b.case(elem, [root, "@ rows -", "@ rows_mut -", "@ cells -", "@ cells_mut -", "@ col 0 -", "@ col_mut 0 -",
                          f"@v(0,0,{C},{R}) size", f"@w(0,0,{C},{R}) size", "@ dump"])
    return b.cases


def hist_ops(rng, C, R, k, elem="u32"):
    """one random, mostly valid operation on an owned array of shape (C,R); returns (line, newC, newR)"""
    def maybe_bad(x, dim):
        return x if rng.random() < 0.88 else rng.choice([dim, dim + 1, U64])
    n = C * R
    if rng.random() < 0.09:
        # caller code that panics or lies, and forgotten drains, in the middle of a history (C01/C05/C11/C12 interleaved with
        # everything else): the tracked shape follows what the repaired crate leaves behind
        kind = rng.choice(["row_panic", "push_row_panic", "col_panic", "row_lie", "col_lie", "row_leak", "col_leak"])
        def ev_with_panic(L):
            pos = rng.randrange(L) if L else 0
            xs = [str(v) for v in uniq(L, k)]
            if L:
                xs[pos] = "!"
            return ",".join(xs) if xs else "!"
        if kind == "row_panic":
            L = C if R else rng.randrange(1, 4)
            i = rng.randrange(R + 1)
            return (f"@ insert_row {i} {L} {ev_with_panic(L)}", (C, i) if i > 0 else (0, 0))
        if kind == "push_row_panic":
            L = C if R else rng.randrange(1, 4)
            return (f"@ push_row {L} {ev_with_panic(L)}", (C, R) if R > 0 else (0, 0))
        if kind == "col_panic":
            L = R if C else rng.randrange(1, 4)
            i = rng.randrange(C + 1)
            return (f"@ insert_col {i} {L} {ev_with_panic(L)}", (0, 0))
        if kind == "row_lie" and R > 0:
            claimed = rng.choice([C + 1, max(C - 1, 0), 2**63, U64])
            return (f"@ insert_row {rng.randrange(R + 1)} {claimed} {fl(uniq(C, k))}", (C, R))
        if kind == "col_lie" and C > 0:
            claimed = rng.choice([R + 1, max(R - 1, 0), 2**63, U64])
            return (f"@ insert_col {rng.randrange(C + 1)} {claimed} {fl(uniq(R, k))}", (C, R))
        if kind == "row_leak" and R > 0:
            i = rng.randrange(R)
            w = ",".join(rng.choice(["n", "b", "l"]) for _ in range(rng.randrange(0, C + 2))) or "-"
            return (f"@ remove_row {i} {w} leak", (C, i) if i > 0 else (0, 0))
        if kind == "col_leak" and C > 0:
            i = rng.randrange(C)
            w = ",".join(rng.choice(["n", "b", "l"]) for _ in range(rng.randrange(0, R + 2))) or "-"
            return (f"@ remove_col {i} {w} leak", (0, 0))
    choice = rng.random()
    if choice < 0.13:
        L = C if R else rng.randrange(0, 4)
        Lc = L if rng.random() < 0.9 else L + 1
        i = maybe_bad(rng.randrange(R + 1), R + 1)
        ok = i <= R and (Lc == C or R == 0)
        line = f"@ insert_row {i} {Lc} {fl(uniq(Lc, k))}"
        return (line, (Lc, R + 1) if ok and Lc > 0 else (C, R))
    if choice < 0.26:
        L = R if C else rng.randrange(0, 4)
        Lc = L if rng.random() < 0.9 else L + 1
        i = maybe_bad(rng.randrange(C + 1), C + 1)
        ok = i <= C and (Lc == R or C == 0)
        line = f"@ insert_col {i} {Lc} {fl(uniq(Lc, k))}"
        return (line, (C + 1, Lc) if ok and Lc > 0 else (C, R))
    if choice < 0.36:
        i = maybe_bad(rng.randrange(R) if R else 0, R)
        w = ",".join(rng.choice(["n", "b", "l", "N1", "B1", "N0"]) for _ in range(rng.randrange(0, C + 2))) or "-"
        ok = i < R
        newd = (C, R - 1) if ok else (C, R)
        if newd[1] == 0:
            newd = (0, 0)
        return (f"@ remove_row {i} {w} {rng.choice(['drop', 'drop', 'drop', 'fold', 'rfold'])}", newd)
    if choice < 0.46:
        i = maybe_bad(rng.randrange(C) if C else 0, C)
        w = ",".join(rng.choice(["n", "b", "l", "N1", "B1", "N0"]) for _ in range(rng.randrange(0, R + 2))) or "-"
        ok = i < C
        newd = (C - 1, R) if ok else (C, R)
        if newd[0] == 0:
            newd = (0, 0)
        return (f"@ remove_col {i} {w} {rng.choice(['drop', 'drop', 'drop', 'fold', 'rfold'])}", newd)
    if choice < 0.50:
        op = rng.choice(["pop_row", "pop_col"])
        if op == "pop_row":
            newd = (C, R - 1) if R else (C, R)
            if newd[1] == 0:
                newd = (0, 0)
        else:
            newd = (C - 1, R) if C else (C, R)
            if newd[0] == 0:
                newd = (0, 0)
        return (f"@ {op} n {rng.choice(['drop', 'drop', 'fold', 'rfold'])}", newd)
    if choice < 0.53:
        return ("@ clear", (0, 0))
    if choice < 0.57:
        return ("@ swap_dimensions", (R, C))
    if choice < 0.60:
        return (rng.choice(["@ reserve 5", "@ reserve_exact 3", "@ shrink_to_fit", "@ capacity"]), (C, R))
    if choice < 0.64:
        L = C if R else rng.randrange(1, 4)
        return (f"@ push_row {L} {fl(uniq(L, k))}", (L, R + 1) if L > 0 else (C, R))
    if choice < 0.68:
        L = R if C else rng.randrange(1, 4)
        return (f"@ push_col {L} {fl(uniq(L, k))}", (C + 1, L) if L > 0 else (C, R))
    # in-place algorithms and rejected calls
    cc = maybe_bad(rng.randrange(C) if C else 0, C)
    rr = maybe_bad(rng.randrange(R) if R else 0, R)
    c2 = rng.randrange(C) if C else 0
    r2 = rng.randrange(R) if R else 0
    ops = [f"@ fill {k}", f"@ swap {cc} {rr} {c2} {r2}", f"@ swap_rows {rr} {r2}", f"@ swap_cols {cc} {c2}",
           f"@ translate {rng.randrange(C + 2)} {rng.randrange(R + 2)}", "@ flip_rows", "@ flip_cols",
           f"@ sort_by_row {rr}", f"@ sort_by_col {cc}", f"@ sort_by_col_key {cc}", f"@ sort_row_ord {rr}",
           f"@ clone_from_slice {fl(uniq(n if rng.random() < 0.8 else n + 1, k))}",
           f"@ set {cc} {rr} {k}", f"@ rowset {rr} {cc} {k}", f"@ colset {cc} {rr} {k}", "@ clone",
           f"@ clone_from {C} {R} {fl(uniq(n, k))}",
           f"@v(0,0,{C},{R}) fill {k}"]
    if elem != "zst":
        ops += [f"@ rows_mut n,b,f", f"@ cells_mut N1,B1", "@ col_mut 0 n,L"]     # positions are not printed for zero-sized elements
    return (rng.choice(ops), (C, R))


FAULTABLE = {"clone_from": "clone", "remove_row": "drop", "remove_col": "drop", "pop_row": "drop", "pop_col": "drop", "clear": "drop", "fill": "clone",
             "clone_from_slice": "clone", "set": "drop", "rowset": "drop", "colset": "drop", "insert_row": "drop", "insert_col": "drop"}


def gen_history(pid, tier, seed, elems, n_hist, length):
    rng = random.Random(seed)
    b = Builder(pid)
    k = 1000
    for h in range(n_hist):
        elem = rng.choice(elems)
        C, R = rng.choice(shapes(3))
        lines = [f"@ from_vec {C} {R} {fl(uniq(C * R, 100))}"] if rng.random() < 0.7 else [rng.choice(["@ default", f"@ new {C} {R}", f"@ init {C} {R} 7", "@ with_capacity 9"])]
        for _ in range(rng.randrange(length[0], length[1])):
            line, (C, R) = hist_ops(rng, C, R, k, elem)
            k += 13
            if elem == "cell" and rng.random() < 0.06 and line.split()[1] in FAULTABLE:
                # an element's destructor / clone panics at the j-th call during this operation
                line += f" !{FAULTABLE[line.split()[1]]}:{rng.randrange(3)}"
            lines.append(line)
            if C > 6 or R > 6:
                lines.append("@ clear"); C = R = 0
            lines.append("@ lens")
            if rng.random() < 0.3:
                lines.append("@ dump")
        b.case(elem, lines)
    return b.cases


def gen_C01(tier, seed):
    cases = gen_history("C01", tier, seed, ["u32", "cell", "zst"], 150 if tier == "quick" else 2500, (10, 40))
    # exhaustive short histories over the structural ops on tiny shapes
    b = Builder("C01x")
    ops = ["@ insert_row 0 {C} {row}", "@ insert_col 0 {R} {col}", "@ remove_row 0 n drop", "@ remove_col 0 b drop", "@ pop_row - drop",
           "@ pop_col - drop", "@ clear", "@ swap_dimensions", "@ push_row {C} {row}", "@ push_col {R} {col}", "@ insert_row 9 {C} {row}",
           "@ remove_col 9 - drop", "@ push_row 1 7", "@ push_col 2 8,9"]
    depth = 3 if tier == "quick" else 4
    for (C, R) in [(0, 0), (1, 1), (2, 1), (1, 2), (2, 2)]:
        for word in itertools.product(range(len(ops)), repeat=depth):
            if tier == "quick" and (sum(word) + C + R) % 5:
                continue
            # the generator does not track the shape here: lengths are the *initial* dims, so many calls are rejected — fine
            lines = [f"@ from_vec {C} {R} {fl(uniq(C * R, 100))}"]
            for j, w in enumerate(word):
                lines.append(ops[w].format(C=C, R=R, row=fl(uniq(C, 200 + 10 * j)), col=fl(uniq(R, 300 + 10 * j))))
                lines.append("@ lens")
            b.case("cell", lines)
    return cases + b.cases


def gen_C05(tier, seed):
    cases = gen_history("C05", tier, seed + 77, ["cell", "zst"], 150 if tier == "quick" else 2500, (10, 40))
    rng = random.Random(seed)
    b = Builder("C05x")
    for (C, R) in shapes(3 if tier == "quick" else 4):
        d = uniq(C * R, 100)
        root = f"@ from_vec {C} {R} {fl(d)}"
        for elem in ["cell", "zst"]:
            b.case(elem, [root, "@ into_vec"]); b.case(elem, [root, "@ into_box"])
            for kk in range(C * R + 2):
                b.case(elem, [root, f"@ into_iter {kk}"])
            b.case(elem, [root, "@ clone", "@ clear", "@ clone"])
            b.case(elem, [root, f"@v(0,0,{C},{R}) to_owned", f"@w(0,0,{C},{R}) to_owned", "@ fill 3", f"@v(0,0,{C},{R}) fill 4"])
            b.case(elem, [root, f"@ from_vec {C} {R} {fl(uniq(C * R, 500))}", f"@ init {C} {R} 1", f"@ new {C} {R}", "@ default"])
    return cases + b.cases


# ------------------------------------------------------------------------------------------ registry

GENS = {}


def register():
    for k, v in list(globals().items()):
        if k.startswith("gen_C"):
            GENS[k[4:]] = v


HUGE_PIDS = {"C01", "C02", "C03", "C06", "C07", "C08", "C09", "C10", "C13", "C20"}


def gen_huge(pid, tier, seed):
    """arrays of the zero-sized `unit` kind with up to usize::MAX cells (`TooDee::init(c, r, ())` is O(1)): the crate's index
    arithmetic at the top of the usize range, judged by the numbers it reports (DESIGN.md §5, `specHuge`)"""
    rng = random.Random(seed + 99)
    b = Builder(pid + "h")
    M = U64
    shapes_h = [(3, M // 3), (1, M), (M, 1), (2, 2**63 - 1), (2**32, 2**31), (2**32 - 1, 2**32 + 1), (5, 2**61), (7, M // 7), (2**63, 1)]
    if tier == "quick":
        shapes_h = shapes_h[:6]
    for (C, R) in shapes_h:
        root = f"@ init {C} {R} 0"
        n = C * R
        def args(total):
            return sorted(set(x for x in [0, 1, 2, total - 2, total - 1, total, total + 1, total // 2, 2**32, 2**63, M, M - 1] if 0 <= x <= M))
        lines = [root, "@ size"]
        if pid in ("C01", "C08"):
            if C <= 64:
                lines.append("@ lens")
            for a in args(R):
                lines += [f"@ rows l,N{a},l,n,l,b,l", f"@ rows B{a},l,h,N0,l", f"@x rows l,B{a},N1,l,w"]
                if C <= 64:
                    lines.append(f"@ rows_mut N{a},B{a},l")      # the harness writes to every cell of a yielded row
            lines += ["@ rows L", "@ rows c", "@ rows n,b,n,b,l"]
        if pid in ("C01", "C09"):
            for c in sorted(set([0, C - 1, C, C // 2])):
                if c > M:
                    continue
                for a in args(R)[:8] + [R - 1, R]:
                    lines += [f"@ col {c} l,N{a},l,n,l", f"@ col {c} B{a},l,b,l", f"@ col {c} i{a}", f"@ col_mut {c} N{a},B0,l"]
        if pid in ("C01", "C10"):
            for a in args(n):
                lines += [f"@ cells l,N{a},l,n,l,b,l", f"@ cells B{a},l,N0,l,w", f"@ cells_mut N{a},B{a},l", f"@ iter_ref l,B{a},l"]
            lines += ["@ cells L"]          # (`count()` of the cell iterator is the std default: it walks every cell)
        if pid == "C02":
            for c in sorted(set([0, C - 1, C])):
                for r in args(R)[:9] + [R - 1, R]:
                    if c <= M and r <= M:
                        lines += [f"@ get {c} {r}", f"@ rowget {r} {c}", f"@ colget {c} {r}"]
            if C <= 64:
                lines += [f"@ row {R - 1}", f"@ row {R}", "@ row 0"]
        if pid == "C03":
            wins = []
            for _ in range(12 if tier == "quick" else 60):
                c0 = rng.choice([0, 1, C // 2, C - 1, C]); c1 = rng.choice([c0, C, max(c0, C - 1), C + 1])
                r0 = rng.choice([0, 1, R // 2, R - 1, R]); r1 = rng.choice([r0, R, max(r0, R - 1), R + 1, M])
                if max(c0, c1, r0, r1) <= M:
                    wins.append((c0, r0, c1, r1))
            for w in wins:
                s_ = ",".join(map(str, w))
                lines += [f"@v({s_}) size", f"@w({s_}) size", f"@xv({s_}) size", f"@v({s_}) rows l,B0,N1,l", f"@w({s_}) cells l,N5,l"]
                wc, wr = w[2] - w[0], w[3] - w[1]
                if 0 < wc and 0 < wr and w[2] <= C and w[3] <= R:
                    lines += [f"@v({s_})v(0,{wr // 2},{wc},{wr}) size", f"@v({s_})w(0,1,{wc},{wr}) rows l,N{wr},l"]
        if pid == "C20":
            # constructors at the top of the range: every shape whose product fits a usize is a valid array of zero-sized cells
            # (`init`; `new` would run `T::default` once per cell), and a view built over (a prefix of) its buffer likewise
            lines += ["@ lens"] if C <= 64 else []
            for (c2, r2) in [(C, R), (R, C), (1, n), (n, 1), (C, R - 1), (C, R + 1), (C + 1, R), (2, n // 2), (n // 2 + 1, 2)]:
                if 0 <= c2 <= M and 0 <= r2 <= M:
                    for k in sorted(set(x for x in [n, n - 1, c2 * r2] if 0 <= x <= M)):
                        lines += [f"@s({c2},{r2},{k}) size", f"@S({c2},{r2},{k}) size"]
            for (c2, r2) in [(R, C), (1, n), (n, 1), (2, n // 2), (2**32, 2**31), (2**63, 1), (1, 2**63), (2**32, 2**32), (0, 5), (M, M)]:
                if 0 <= c2 <= M and 0 <= r2 <= M:
                    lines += [f"@ init {c2} {r2} 0", "@ size"]
        small_c = C <= 64
        if pid in ("C01", "C13") and small_c:
            for a in args(R)[:10] + [R - 1, R]:
                lines += [f"@ swap_rows 0 {a}", f"@ swap_rows {a} {a}", f"@ swap 0 0 {C - 1} {a}", f"@ row_pair {a} 0", f"@x swap_rows {a} 1"]
                if R > 8:
                    lines += [f"@v(0,1,{C},{R}) swap_rows 0 {a}", f"@v(0,1,{C},{R}) size"]
        if pid in ("C01", "C07") and small_c:
            for a in args(R)[:10] + [R - 1, R]:
                lines += [root, f"@ remove_row {a} n,l,b,l drop", "@ size"]
            lines += [root, "@ pop_row n,l drop", "@ size", "@ pop_row - drop", "@ size", "@ rows l,B0,l"]
        if pid in ("C01", "C06") and small_c:
            items = fl(uniq(C, 5))
            for a in args(R)[:10] + [R - 1, R, R + 1]:
                lines += [root, f"@ insert_row {a} {C} {items}", "@ size"]
            lines += [root, f"@ push_row {C} {items}", "@ size", f"@ push_row {C} {items}", "@ size", "@ swap_dimensions", "@ size", "@ clear", "@ size"]
        b.case("unit", lines)
    return b.cases


OTHER_KINDS = {"C04", "C13", "C14", "C15", "C16", "C17"}     # in-place algorithms: written for u32 cases, re-run on the other kinds
ITER_WORDS = ("rows_mut", "cells_mut", "col_mut", "iter_mut", "row_pair", "rows ", "cells ", "col ", "iter_ref")


def generate(pid, tier, seed):
    register()
    if pid not in GENS:
        raise SystemExit(f"no generator for {pid}")
    cases = GENS[pid](tier, seed)
    if pid in OTHER_KINDS:
        # the element type is a dimension of its own (drop glue, zero size): a sample of the u32 cases is repeated on ledgered
        # cells and on zero-sized elements (iterator lines are left out for zero-sized elements: positions are not observable)
        rng = random.Random(seed + 4242)
        extra = []
        for c in cases:
            if c[0].endswith("elem=u32") and rng.random() < (0.12 if tier == "quick" else 0.25):
                for kind in ("cell", "zst"):
                    body = [l for l in c[1:-1] if not (kind == "zst" and any(w in l for w in ITER_WORDS))]
                    if body:
                        extra.append([c[0].replace("elem=u32", f"elem={kind}").replace(f"case {pid}-", f"case {pid}k-")] + body + ["end"])
        cases = cases + extra
    # the element size is not a parameter of the model and must not be one of the code: for every property a sample of the u32
    # cases is repeated on `wide` (a 96-byte Copy cell that supports every operation u32 does and shows torn cells)
    rng = random.Random(seed + 9696)
    wide = []
    for c in cases:
        if c[0].endswith("elem=u32") and rng.random() < (0.12 if tier == "quick" else 0.25):
            wide.append([c[0].replace("elem=u32", "elem=wide").replace(f"case {pid}-", f"case {pid}w-")] + c[1:])
        elif c[0].endswith("elem=cell") and rng.random() < (0.12 if tier == "quick" else 0.25):
            # … and a sample of the ledgered-cell cases on `widecell` (96 bytes, drop glue, same ledger and fault countdowns)
            wide.append([c[0].replace("elem=cell", "elem=widecell").replace(f"case {pid}", f"case {pid}W", 1)] + c[1:])
    cases = cases + wide
    if pid in HUGE_PIDS:
        cases = cases + gen_huge(pid, tier, seed)
    return cases


NT = "; a step counts as distinct/non-trivial by the pair (operation line, root state before it)"
RULES = {
    "C01": "random histories of 10-40 mostly-valid operations (structural, in-place, rejected calls, views, iterators; about one step in eleven is an iterator that panics or lies about its length, or a drain that is leaked) on u32 / ledgered cell / zero-sized elements from shapes <=3x3, `lens` after every step; plus exhaustive depth-3 (4) words over 14 structural operations from 5 tiny shapes" + NT,
    "C20": "every constructor x dims in {0..4(5),2^32,2^63,2^64-1}^2 x buffer lengths product-1..product+1 x {u32,cell}; slice-built views; conversions on all shapes <=4x4; == / hash against the same cells under every other factorisation, == of an array with itself and its clone on an element kind whose == is not reflexive, a row or column fewer (prefix / suffix) and a row or column more" + NT,
    "C02": "all shapes <= 4x4 (5x5), receivers root/ext/view/view_mut/nested (sampled windows), coordinates in {0..dim+1, 2^32, 2^63, 2^64-1, ceil(2^64/stride)..}; every checked accessor and its mutable form; unchecked getters on valid coordinates" + NT,
    "C03": "all parents <= 3x3 (4x4) x all (start,end) in {0..dim+1}^4 x 3 receiver kinds, nested to depth 3 (sampled), slice-built roots, writes through the innermost mutable view" + NT,
    "C04": "all parents <= 4x4 (5x5), sampled windows incl. nested, 27 mutating operations with valid and out-of-range arguments, and mutable iteration (rows_mut / cells_mut / col_mut) along sampled (all, thorough) two-step words over n,b,N0,N1,B0,B1 then collect from either end, each from a fresh root; the whole parent is compared" + NT,
    "C05": "random histories on ledgered cells and zero-sized elements; every conversion (into_vec/box/iter k, clone, to_owned, constructors replacing an array) on all shapes <=3x3; drop list, live count and double-drop counter compared after every step and at the final drop" + NT,
    "C06": "all shapes <= 4x4 (5x5) x index 0..dim+1 x length 0..dim+1 x {u32,cell,zst} x {exact, reserved, shrunk} capacity; push twice; iterators that claim the right length but yield one item fewer / more; random build-up histories from the empty array" + NT,
    "C07": "all shapes <= 4x4 (5x5) x every index x (front,back) consumption splits with len() in between + random words over n,b,l x {u32,cell,zst}; out-of-range and huge indices; drains consumed by value through fold / rfold after a prefix; pop until empty and beyond" + NT,
    "C08": "all shapes <= 3x3 (4x4) x receivers (root, ext, sampled views, nested, slice-built) x rows/rows_mut x (sampled exhaustive words to depth 3 over n,b,l,N0,N1,B0,B1 + random words of length <=9 with arguments 2^32, 2^63, 2^64-1, ceil(2^64/stride)+-1 and a consuming last step)" + NT,
    "C09": "as C08 for col/col_mut with every column index 0..C (out of range included) and index steps",
    "C10": "as C08 for cells/cells_mut/iter_ref/iter_mut",
    "C11": "all shapes <= 3x3 (4x4): insert_row/insert_col with the iterator panicking at every position and with claimed lengths real-1, real+1, 0, 2^63, 2^64-1 x {cell,zst,u32}; k-th Clone/Drop/Default/comparator/key call panicking for k in {0,1,n-1,n,n+1} in 25 operations; each followed by read, push, pop, final drop" + NT,
    "C12": "all shapes <= 4x4 (5x5) x both drains x every index x every (front,back) consumption split, leaked, then read / push / pop / drop x {cell,u32,zst}; repeated leaked pops; borrow-only values created and dropped" + NT,
    "C13": "all shapes <= 4x4 (5x5) x receivers (root, ext, full-height narrow views, sampled and nested views, slice-built) x all (r1,r2), (c1,c2) in {0..dim+1, 2^64-1, row indices whose product with the stride wraps around 2^64}^2 for swap_rows/row_pair/swap_cols and for swap against a valid cell, sampled swap pairs, fill on u32 and cell" + NT,
    "C14": "all shapes <= 3x3 (4x4) x receivers x source lengths n-1..n+1 / source shapes (same, transposed, +1) / strided source views; copy_within: sampled (all in thorough) source rectangles x destination corners incl. one-off invalid and 2^64-1" + NT,
    "C15": "all shapes <= 5x5 (8x8) x all mids 0..dim+1 and 2^64-1 on root, ext and views; arrays with 6..12 (16) rows x 1,3,4 columns x every row mid (every gcd pattern); flips" + NT,
    "C16": "all shapes <= 4x4 (5x5) x 6 row variants x every row index 0..dim+1 and 2^64-1 x root/ext/views, keys drawn from a 3-letter alphabet with distinct cells (all tie patterns over the repetitions); wide arrays 40-70 (24-260) columns x 2 rows with a 2-letter alphabet" + NT,
    "C17": "as C16 for the 5 column variants (tall arrays)",
    "C18": "all shapes <= 4x4 (6x6), 1x9, 9x1, 7x5 with boundary u32 values x {u32,cell} x 4 transports; views, shared views and slice-built views (u32); plus arrays and full / interior windows of 17x16, 65x64, 1x5000, 5000x1 (33x32, 129x128) cells, crossing typical preallocation thresholds" + NT,
    "C19": "600 (6000) grammar-generated documents (objects, and the same fields as bare arrays in every order; missing / duplicated / unknown / escaped keys, dimension values 0..6, 2^32, 2^63, 2^64-1, 2^64, -1, 1.5, 1e2, \"3\", null, [], {}, true, 01; data length product-1..product+2, ill-typed elements, non-array data, non-object documents, truncated text) x 4 transports; well-formed documents on ledgered cells" + NT,
}


def rule(pid, tier):
    return (RULES.get(pid, "see DESIGN.md §6/" + pid) +
            "; wherever this says 'all shapes <= NxN' the threshold-crossing shapes 9x2, 2x9, 17x3, 3x17 (larger scope: also 33x2, 2x33, 65x3, 3x65) are included"
            "; a sample (12%, larger scope 25%) of the u32 cases is repeated on the 96-byte Copy kind `wide` and of the cell cases on the 96-byte ledgered kind `widecell`"
            + f"; tier={tier}")


def exhaustive(pid, tier):
    return False


PARTIAL = {
    "C05": ["the accounting law is proved on the model; that Rust runs Drop exactly where the model says is observed by the ledger on explored histories only"],
    "C11": ["proved for insert_row / insert_col (any script), the DrainCol drop loop and the sort prefix; panics inside Vec's own operations (resize_with, vec!, fill, clone, drain, clear) and unwinding are assumed components, exercised by fault injection and judged by the oracle's generic clauses"],
    "C12": ["the state a leaked vec::Drain leaves behind is std-unspecified; the model assumes today's behaviour (len = start of the drained range), validated on every run"],
}


def partial(pid):
    return PARTIAL.get(pid, [])


def assumptions(pid):
    return ["std components (Vec, slice, ptr, serde_json) behave as specified in DESIGN.md §8",
            "two build profiles (debug; release with overflow-checks=off), 64-bit usize",
            "the harness and the driver parse/print the protocol faithfully",
            "allocation failure below the capacity-overflow limit (a process abort) is outside the model; the limits themselves (Vec<T>, sort side table) are model parameters"]


def abort_is_violation(pid, line):
    """A non-unwinding abort / hang of the implementation on a generated (safe-API) input is itself a failure of every
    property whose text promises a panic-or-result (all of them)."""
    return True
